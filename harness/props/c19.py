"""C19 — timeline events fire exactly once, on time, whatever order they are listed in.

Correspondence: `TimelineProcess` (built by `add_timeline` or directly) inside a REAL `Engine`
driven by `Engine.update`, and direct `next_update` call sequences, vs `VivModel/Timeline.lean`.
Oracle: from the raw listed events, computed directly: which writes every tick must carry and
what every emitted row must hold; plus a second run with the listing permuted."""
import copy
import itertools
import warnings

from harness.val import enc, dec, sort_enc, exc_name

PROP = 'C19'
LEAN_TARGETS = ['VivProps.C19']
DRIVER = 'Timeline'
REQUIRED_THEOREMS = [
    'init_sorted', 'init_times', 'init_event_at', 'init_order_invariant', 'init_perm_distinct',
    'nextUpdate_pops_due', 'fire_once', 'fired_exactly_once', 'tick_sets_last_write',
    'compound_collision_later_wins', 'run_eq_spec', 'engine_fire_once', 'any_order', 'schedule_total',
]
ANCHORS = [
    ('vivarium/processes/timeline.py', ['nested_set', 'TimelineProcess.initialize_timeline',
                                        'TimelineProcess.ports_schema',
                                        'TimelineProcess.next_update']),
    ('vivarium/library/dict_utils.py', ['deep_merge_combine_lists']),
    ('vivarium/core/composition.py', ['add_timeline']),
    ('vivarium/core/engine.py', ['Engine.run_for', 'Engine.update']),
]
BUDGET = {'quick': 1200, 'thorough': 30000}
RULE = ('cases: (listed events ≤ 12 with integer times incl. negative/zero/duplicate times and '
        'several events between two ticks, timeline timestep 1..6, 1–3 Engine.update intervals, '
        'initial clock, scalar / list / dict values incl. several compound writes to one variable in one tick, a permutation of the listing that keeps equal-time events in order) run '
        'through a real Engine (add_timeline or direct construction; the driven variables are '
        'declared by a passive Step or by a second Process with its own timestep), and direct '
        'next_update call sequences with arbitrary non-decreasing clocks. thorough adds all '
        'permutations of small timelines. Non-trivial: ≥ 2 events, at least one fires, and the '
        'listing is unsorted or has duplicate times or ≥ 2 events fall due in one tick.')
TRUSTED = ['Store.apply_update / Engine scheduling beyond the single-timeline tick loop modelled '
           'in VivModel/Timeline.lean (checked against the real Engine on every case)']
ASSUMPTIONS = [
    'integer event times, timesteps (≥ 1) and run lengths (≥ 1): float arithmetic in run_for exact',
    'driven variables are declared (by another process) as leaf variables; their paths are '
    'prefix-free, have ≥ 2 elements, do not start with "global" and contain no "_…" keys',
]
CASE_TIMEOUT = 20.0

PORTS = ['p', 'q', 'r', 'lo', 'g', 'al', 'global']    # some names are substrings of 'global' (the one port name that is special)
VARS = ['a', 'b', 'c']


def _warm():
    """import the implementation once in the parent: the forked workers inherit the loaded modules,
    so the per-case watchdog times the case, not the imports"""
    try:
        with warnings.catch_warnings():
            warnings.simplefilter('ignore')
            import importlib
            for m in ['vivarium.core.engine', 'vivarium.processes.timeline', 'vivarium.core.composition']:
                importlib.import_module(m)
    except Exception:  # a broken import shows up in run_impl
        pass


_warm()


# ------------------------------------------------------------------ generators

def gen_scalar(rng):
    r = rng.random()
    if r < 0.6:
        return rng.randrange(-5, 50)
    if r < 0.7:
        return rng.choice([0, 0, 1])
    if r < 0.8:
        return rng.random() < 0.5
    if r < 0.88:
        return None
    return rng.choice(['', 'x', 'yy'])


def gen_compound(rng):
    if rng.random() < 0.5:
        return [rng.randrange(5) for _ in range(rng.randrange(0, 3))]
    return {k: rng.randrange(5) for k in rng.sample(['u', 'v'], rng.randrange(0, 3))}


def gen_paths(rng):
    """a prefix-free set of variable paths of length 2–3"""
    paths = []
    for port in rng.sample(PORTS, rng.randrange(1, 4)):
        for v in rng.sample(VARS, rng.randrange(1, 3)):
            if rng.random() < 0.2:
                for w in rng.sample(VARS, rng.randrange(1, 3)):
                    paths.append([port, v, w])
            else:
                paths.append([port, v])
    return paths


def gen_events(rng, paths, lo, hi, n):
    times_pool = [rng.randrange(lo, hi + 1) for _ in range(rng.randrange(1, max(2, n + 1)))]
    events = []
    for _ in range(n):
        t = rng.choice(times_pool) if rng.random() < 0.7 else rng.randrange(lo, hi + 1)
        k = rng.choice([0, 1, 1, 1, 2, 2, 3]) if rng.random() < 0.9 else len(paths)
        ch = [[p, enc(gen_scalar(rng))] for p in rng.sample(paths, min(k, len(paths)))]
        events.append([t, ch])
    return events


def add_compound(rng, events, paths):
    """turn about half of the written values into lists / dicts — on any variable, also on
    variables written by several events that fall due in the same tick (later one must win)"""
    for _, ch in events:
        for pv in ch:
            if rng.random() < 0.5:
                pv[1] = enc(gen_compound(rng))


def order_preserving_perm(rng, events):
    """a random permutation of the listing in which equal-time events keep their relative order"""
    idx = list(range(len(events)))
    rng.shuffle(idx)
    # restore listing order inside each group of equal times
    by_time = {}
    for i in sorted(idx):
        by_time.setdefault(events[i][0], []).append(i)
    pos = {t: 0 for t in by_time}
    out = []
    for i in idx:
        t = events[i][0]
        out.append(by_time[t][pos[t]])
        pos[t] += 1
    return out


def gen_sim(rng):
    ts = rng.choice([1, 1, 2, 2, 3, 4, 5, 6])
    runs = [rng.randrange(1, 13) for _ in range(rng.choice([1, 1, 2, 3]))]
    total = sum(runs)
    clock0 = 0 if rng.random() < 0.75 else rng.randrange(-4, 9)
    gtime0 = 0 if rng.random() < 0.85 else rng.randrange(1, 6)
    paths = gen_paths(rng)
    n = rng.choice([0, 1, 2, 2, 3, 3, 4, 5, 6, 8, 10, 12])
    events = gen_events(rng, paths, clock0 - 3, clock0 + total + 2, n)
    if rng.random() < 0.35:
        add_compound(rng, events, paths)
    vars0 = [[p, enc(gen_scalar(rng))] for p in paths]
    if rng.random() < 0.5:
        vars0.append([['z', 'untouched'], enc(rng.randrange(100))])
    rng.shuffle(vars0)
    holder = 'step' if rng.random() < 0.6 else 'proc'
    return {'kind': 'sim', 'events': events, 'ts': ts, 'runs': runs, 'clock0': clock0,
            'gtime0': gtime0, 'vars0': vars0, 'holder': holder, 'hts': rng.choice([1, 2, 3, 5, 7]),
            'via': rng.choice(['add_timeline', 'direct']),
            # a pilot simulation of that length with the same process objects, before the one that is judged
            'pilot': rng.choice([0, 0, 0, 0, 2, 5, 9]),
            'perm': order_preserving_perm(rng, events)}


def gen_nu(rng):
    paths = gen_paths(rng)
    n = rng.choice([1, 2, 3, 4, 6, 9, 12])
    events = gen_events(rng, paths, -3, 20, n)
    if rng.random() < 0.35:
        add_compound(rng, events, paths)
    clocks = []
    c = rng.randrange(-5, 5)
    for _ in range(rng.randrange(1, 9)):
        clocks.append(c)
        c += rng.choice([0, 1, 1, 2, 3, 5, 8])
    dts = [rng.randrange(1, 5) for _ in clocks]
    return {'kind': 'nu', 'events': events, 'clocks': clocks, 'dts': dts}


def gen_malformed(rng):
    """an event whose change dict has an empty path tuple: rejected at construction"""
    paths = gen_paths(rng)
    events = gen_events(rng, paths, 0, 8, rng.randrange(1, 4))
    rng.choice(events)[1].append([[], enc(1)])
    return {'kind': 'nu', 'events': events, 'clocks': [0, 9], 'dts': [1, 1]}


def generate(rng, n, tier):
    cases = []
    for _ in range(n):
        r = rng.random()
        if r < 0.62:
            cases.append(gen_sim(rng))
        elif r < 0.96:
            cases.append(gen_nu(rng))
        else:
            cases.append(gen_malformed(rng))
    if tier == 'thorough':
        cases.extend(all_perm_family(rng))
    return cases


def all_perm_family(rng):
    """every permutation of a few timelines of ≤ 5 events (distinct and duplicate times)"""
    out = []
    bases = [
        [[0, [[['p', 'a'], 1]]], [5, [[['p', 'a'], 2]]], [10, [[['p', 'a'], 3]]]],
        [[1, [[['p', 'a'], 1]]], [2, [[['p', 'a'], 2], [['p', 'b'], 7]]], [3, [[['p', 'b'], 3]]],
         [7, [[['p', 'a'], 4]]]],
        [[-1, [[['p', 'a'], 1]]], [0, [[['p', 'b'], 2]]], [4, [[['p', 'a'], 3]]],
         [4, [[['p', 'a'], 5], [['p', 'b'], 6]]], [9, [[['p', 'b'], 8]]]],
        [[2, [[['p', 'a'], 1]]], [2, [[['p', 'a'], 2]]], [2, [[['p', 'b'], 3]]], [6, [[['p', 'a'], 9]]]],
    ]
    for ev in bases:
        for perm in itertools.permutations(range(len(ev))):
            # as the listing itself: every order of the events is a listing in its own right
            listing = [copy.deepcopy(ev[i]) for i in perm]
            for ts, runs in ((3, [12]), (4, [5, 6])):
                out.append({'kind': 'sim', 'events': listing, 'ts': ts, 'runs': runs, 'clock0': 0,
                            'gtime0': 0, 'vars0': [[['p', 'a'], 0], [['p', 'b'], 0]],
                            'holder': 'step', 'hts': 1, 'via': 'add_timeline',
                            'perm': order_preserving_perm(rng, listing)})
    return out


def corpus():
    v = [[['p', 'a'], 0], [['p', 'b'], 0]]

    def sim(events, ts=1, runs=(12,), perm=None, **kw):
        c = {'kind': 'sim', 'events': events, 'ts': ts, 'runs': list(runs), 'clock0': 0, 'gtime0': 0,
             'vars0': copy.deepcopy(v), 'holder': 'step', 'hts': 1, 'via': 'add_timeline',
             'perm': perm if perm is not None else list(range(len(events)))}
        c.update(kw)
        return c
    e = lambda t, val, var='a': [t, [[['p', var], val]]]
    return [
        # F17 pre-fix witnesses: times [0,10,5] lost the event at 10; [5,0] lost 5;
        # three events due in one tick lost the middle one
        sim([e(0, 1), e(10, 3), e(5, 2)], perm=[0, 2, 1]),
        sim([e(5, 2), e(0, 1)], perm=[1, 0]),
        sim([e(1, 1), e(2, 2, 'b'), e(3, 3)], ts=5, runs=(10,)),
        sim([e(1, 1), e(2, 2), e(3, 3)], ts=5, runs=(10,), perm=[2, 0, 1]),
        # duplicate times: right-biased merge in listing order
        sim([e(4, 1), e(2, 5, 'b'), e(4, 2), [4, [[['p', 'b'], 9], [['p', 'a'], 7]]]], ts=2, runs=(3, 5)),
        # negative / zero times, non-zero initial clock, truncated last tick, second process
        sim([e(-2, 1), e(0, 2, 'b'), e(7, 3)], ts=3, runs=(4, 4), clock0=5, holder='proc', hts=2,
            via='direct'),
        sim([], ts=2, runs=(3,)),
        sim([[3, []], e(3, 1)], ts=2, runs=(6,)),
        {'kind': 'nu', 'events': [e(0, 1), e(10, 3), e(5, 2)], 'clocks': [0, 0, 7, 7, 30], 'dts': [1, 1, 2, 1, 1]},
        {'kind': 'nu', 'events': [[1, [[[], 1]]]], 'clocks': [0], 'dts': [1]},
        # regression (defect repaired by 00d1fc4): same-tick list/dict values on one variable were
        # combined by deep_merge_combine_lists ([1,2] then [2,3] gave [1,2,3]); the later must win
        {'kind': 'nu', 'events': [e(1, {'l': [1, 2]}), e(2, {'l': [2, 3]}), e(3, {'d': [['u', 1]]}, 'b'),
                                  e(4, {'d': [['v', 2]]}, 'b')],
         'clocks': [9], 'dts': [1]},
        sim([e(1, {'l': [1, 2]}), e(2, {'l': [2, 3]}), e(3, {'d': [['u', 1]]}, 'b'),
             e(4, {'d': [['v', 2]]}, 'b'), e(8, {'l': []})], ts=5, runs=(10,)),
    ]


# ------------------------------------------------------------------ implementation side

def _events_py(events):
    return [(t, {tuple(p): dec(v) for p, v in ch}) for t, ch in events]


def _flat_update(upd, prefix=()):
    """{path: ('set', value)} for `{'_value':…,'_updater':…}` leaves, {path: ('raw', x)} otherwise"""
    out = {}
    for k, v in upd.items():
        if isinstance(v, dict) and '_value' in v:
            extra = sorted(set(v) - {'_value', '_updater'})
            out[prefix + (k,)] = ['leaf', v.get('_updater'), enc(v['_value']), extra]
        elif isinstance(v, dict):
            out.update(_flat_update(v, prefix + (k,)))
        else:
            out[prefix + (k,)] = ['raw', enc(v)]
    return out


def _tl_obs(timeline):
    return [[t, sorted([[list(p), enc(v)] for p, v in ch.items()], key=lambda pv: pv[0])]
            for t, ch in timeline]


def _nest(pairs):
    d = {}
    for p, v in pairs:
        cur = d
        for k in p[:-1]:
            cur = cur.setdefault(k, {})
        cur[p[-1]] = v
    return d


def _get(d, p):
    """value at path p of an emitted row; a variable whose value is None is absent from the
    row (Store.emit_data's convention), so absent reads as None"""
    for k in p:
        if not isinstance(d, dict) or k not in d:
            return None
        d = d[k]
    return d


def _run_engine(case, events):
    from vivarium.core.engine import Engine
    from vivarium.core.process import Process, Step
    from vivarium.processes.timeline import TimelineProcess
    from vivarium.core.composition import add_timeline

    vars0 = [(tuple(p), dec(v)) for p, v in case['vars0']]

    def schema(self):
        return _nest([(p, {'_default': copy.deepcopy(d), '_emit': True, '_updater': 'accumulate'})
                      for p, d in vars0])

    class HolderStep(Step):
        name = 'holder'
        ports_schema = schema

        def next_update(self, timestep, states):
            return {}

    class HolderProc(Process):
        name = 'holder'
        ports_schema = schema

        def next_update(self, timestep, states):
            return {}

    processes, topology = {}, {}
    config = {'timeline': _events_py(events), 'time_step': case['ts']}
    if case['via'] == 'add_timeline':
        add_timeline(processes, topology, config)
    else:
        tp = TimelineProcess(config)
        processes['timeline'] = tp
        topology['timeline'] = {port: (port,) for port in tp.ports()}
    tp = processes['timeline']
    built = {'timeline': _tl_obs(tp.timeline), 'ports': sorted(tp.ports().keys())}

    calls = []
    inner = tp.next_update

    def spy(timestep, states):
        clock = states['global']['time']
        upd = inner(timestep, states)
        calls.append({'clock': clock, 'dt': timestep,
                      'writes': sorted([[list(p), w] for p, w in _flat_update(upd).items()],
                                       key=lambda pw: pw[0]),
                      'left': [t for t, _ in tp.timeline]})
        return upd
    tp.next_update = spy

    kw = {}
    if case['holder'] == 'step':
        h = HolderStep({})
        kw['steps'] = {'holder': h}
    else:
        h = HolderProc({'time_step': case['hts']})
        processes['holder'] = h
    topology['holder'] = {k: (k,) for k in h.ports_schema()}
    if case.get('pilot'):
        # the same process objects were simulated before (a composite built once, used for a pilot run): the
        # timeline starts afresh in the engine that is judged
        pilot = Engine(processes=processes, topology=topology, display_info=False, emitter={'type': 'null'},
                       initial_state={'global': {'time': case['clock0']}},
                       initial_global_time=case['gtime0'], **kw)
        pilot.update(case['pilot'])
        pilot.end()
        del calls[:]
    eng = Engine(processes=processes, topology=topology, display_info=False,
                 store_schema={'global': {'time': {'_emit': True}}},
                 initial_state={'global': {'time': case['clock0']}},
                 initial_global_time=case['gtime0'], **kw)
    for L in case['runs']:
        eng.update(L)
    rows = []
    for T, row in eng.emitter.get_data().items():
        rows.append([T, _get(row, ('global', 'time')),
                     sorted([[list(p), enc(_get(row, p))] for p, _ in vars0], key=lambda pv: pv[0])])
    eng.end()
    built['rows'] = rows
    built['calls'] = calls
    return built


def run_impl(case):
    warnings.simplefilter('ignore')
    if case['kind'] == 'sim':
        try:
            obs = _run_engine(case, case['events'])
        except Exception as e:  # noqa
            return {'err': exc_name(e), 'msg': str(e)[:300]}
        perm = case.get('perm') or []
        if perm and perm != list(range(len(perm))):
            try:
                obs2 = _run_engine(case, [copy.deepcopy(case['events'][i]) for i in perm])
                obs['perm_rows'] = obs2['rows']
                obs['perm_timeline'] = obs2['timeline']
            except Exception as e:  # noqa
                obs['perm_err'] = exc_name(e)
        return obs
    if case['kind'] == 'nu':
        from vivarium.processes.timeline import TimelineProcess
        try:
            tp = TimelineProcess({'timeline': _events_py(case['events']), 'time_step': 1})
            ports = sorted(tp.ports().keys())
        except Exception as e:  # noqa
            return {'built': {'err': exc_name(e)}}
        obs = {'built': {'ok': {'timeline': _tl_obs(tp.timeline), 'ports': ports}}, 'calls': []}
        params_before = _tl_obs(tp.parameters['timeline'])
        for c, dt in zip(case['clocks'], case['dts']):
            try:
                upd = tp.next_update(dt, {'global': {'time': c}})
            except Exception as e:  # noqa
                obs['calls'].append({'err': exc_name(e)})
                break
            obs['calls'].append({'update': sort_enc(enc(upd)), 'left': _tl_obs(tp.timeline),
                                 'writes': sorted([[list(p), w] for p, w in _flat_update(upd).items()],
                                                  key=lambda pw: pw[0])})
        obs['params_mutated'] = _tl_obs(tp.parameters['timeline']) != params_before
        return obs
    raise ValueError(case['kind'])


# ------------------------------------------------------------------ model side

def model_requests(case):
    if case['kind'] == 'sim':
        return [{'op': 'init', 'events': case['events']},
                {'op': 'simulate', 'events': case['events'], 'ts': case['ts'], 'runs': case['runs'],
                 'gtime0': case['gtime0'], 'clock0': case['clock0'], 'vars0': case['vars0']}]
    return [{'op': 'init', 'events': case['events']},
            {'op': 'nuSeq', 'events': case['events'], 'clocks': case['clocks'], 'dts': case['dts']}]


def _m_tl(tl):
    return [[t, sorted([[p, v] for p, v in ch], key=lambda pv: pv[0])] for t, ch in tl]


def model_obs(case, ans):
    init, main = ans
    built = {'timeline': _m_tl(init['timeline']), 'ports': init['ports']}
    if case['kind'] == 'sim':
        if 'ok' not in main:
            return {'built': built, 'err': main.get('err', main)}
        rows = [[r['gtime'], r['clock'], sorted([[p, v] for p, v in r['vars']], key=lambda pv: pv[0])]
                for r in main['ok']]
        return {'built': built, 'rows': rows, 'lefts': [[t for t, _ in r['left']] for r in main['ok']]}
    calls = []
    for a in main:
        if 'err' in a:
            calls.append({'err': a['err']})
        else:
            calls.append({'update': sort_enc(a['update']), 'left': _m_tl(a['left'])})
    return {'built': built, 'calls': calls}


def compare(case, impl, model):
    if not isinstance(impl, dict) or 'harness_exception' in impl or 'timeout' in impl:
        return f'implementation probe failed: {_short(impl)}'
    diffs = []
    mb = model['built']
    if case['kind'] == 'sim':
        if 'err' in impl:
            return f'implementation raised {impl["err"]}: {impl.get("msg")}'
        if 'err' in model:
            return f'model raised {model["err"]}, implementation ran'
        if 'ok' not in mb['ports']:
            return f'model rejects the ports: {mb["ports"]}'
        if impl['timeline'] != mb['timeline']:
            diffs.append(f'timeline: impl={_short(impl["timeline"])} model={_short(mb["timeline"])}')
        if impl['ports'] != sorted(mb['ports']['ok']):
            diffs.append(f'ports: impl={impl["ports"]} model={mb["ports"]}')
        # rows: the model has the initial state and one row per timeline tick; the engine may
        # emit more rows (ticks of the second process) which must repeat the latest state
        mrows = [[case['gtime0'], case['clock0'],
                  sorted([[p, v] for p, v in case['vars0']], key=lambda pv: pv[0])]] + model['rows']
        by_time = {r[0]: r for r in mrows}
        cur = None
        seen = set()
        for T, clock, vs in impl['rows']:
            if T in by_time:
                cur = by_time[T]
                seen.add(T)
            if cur is None or [clock, vs] != cur[1:]:
                diffs.append(f'row at time {T}: impl={_short([clock, vs])} model={_short(cur and cur[1:])}')
                break
        missing = [r[0] for r in mrows if r[0] not in seen]
        if missing and not diffs:
            diffs.append(f'no emitted row at tick ends {missing}')
        ilefts = [c['left'] for c in impl['calls']]
        if ilefts != model['lefts']:
            diffs.append(f'remaining timeline per tick: impl={_short(ilefts)} model={_short(model["lefts"])}')
        return '; '.join(diffs) if diffs else None
    # nu
    ib = impl.get('built', {})
    if 'err' in ib:
        if 'err' in mb['ports']:
            return None if ib['err'] == mb['ports']['err'] else \
                f'construction: impl raises {ib["err"]}, model {mb["ports"]["err"]}'
        return f'construction: impl raises {ib["err"]}, model accepts'
    if 'err' in mb['ports']:
        return f'construction: model raises {mb["ports"]["err"]}, impl accepts'
    if ib['ok']['timeline'] != mb['timeline']:
        diffs.append(f'timeline: impl={_short(ib["ok"]["timeline"])} model={_short(mb["timeline"])}')
    if ib['ok']['ports'] != sorted(mb['ports']['ok']):
        diffs.append(f'ports: impl={ib["ok"]["ports"]} model={mb["ports"]}')
    icalls = [{k: v for k, v in c.items() if k != 'writes'} for c in impl['calls']]
    if icalls != model['calls']:
        for i, (a, b) in enumerate(itertools.zip_longest(icalls, model['calls'])):
            if a != b:
                diffs.append(f'next_update call {i}: impl={_short(a)} model={_short(b)}')
                break
    return '; '.join(diffs) if diffs else None


def _short(x):
    import json
    s = json.dumps(x, default=str)
    return s if len(s) < 400 else s[:400] + '…'


# ------------------------------------------------------------------ oracle (independent of the model)

def _merge_listing(events):
    """what the property says the effective timeline is: one event per distinct time, in
    increasing time order, its changes the right-biased merge in listing order"""
    by_time = {}
    for t, ch in events:
        d = by_time.setdefault(t, {})
        for p, v in ch:
            d[tuple(p)] = v
    return [(t, by_time[t]) for t in sorted(by_time)]


def _expected_ticks(case):
    """[(start gtime, dt)] of the timeline process under Engine.update(L) for each L"""
    ticks = []
    g = case['gtime0']
    for L in case['runs']:
        end = g + L
        while g < end:
            dt = min(case['ts'], end - g)
            ticks.append((g, dt))
            g += dt
    return ticks


def _check_built(events, timeline, fails, what='timeline'):
    want = [[t, sorted([[list(p), v] for p, v in d.items()], key=lambda pv: pv[0])]
            for t, d in _merge_listing(events)]
    times = [t for t, _ in timeline]
    if any(a >= b for a, b in zip(times, times[1:])):
        fails.append(f'sorted-merged: {what} times not strictly increasing: {times}')
    elif sorted(set(t for t, _ in events)) != times:
        fails.append(f'sorted-merged: {what} times {times} are not the listed times '
                     f'{sorted(set(t for t, _ in events))} (event lost or invented)')
    elif timeline != want:
        fails.append(f'sorted-merged: {what} {_short(timeline)} is not the right-biased merge '
                     f'{_short(want)}')


def _due_writes(merged, lo, hi):
    """writes of the events with lo < time <= hi, in time order, later wins;
    lo None = -infinity"""
    w = {}
    for t, d in merged:
        if (lo is None or t > lo) and t <= hi:
            for p, v in d.items():
                w[p] = v
    return w


def oracle(case, impl):
    if not isinstance(impl, dict) or 'harness_exception' in impl or 'timeout' in impl:
        return [f'probe-crashed: {_short(impl)}']
    fails = []
    events = case['events']
    merged = _merge_listing(events)
    if case['kind'] == 'sim':
        if 'err' in impl:
            return [f'engine-raised: {impl["err"]}: {impl.get("msg")}']
        _check_built(events, impl['timeline'], fails)
        ticks = _expected_ticks(case)
        calls = impl['calls']
        if len(calls) != len(ticks):
            fails.append(f'fire-once: timeline process invoked {len(calls)} times, '
                         f'{len(ticks)} ticks expected')
            return fails
        state = {tuple(p): v for p, v in case['vars0']}
        expected_rows = {case['gtime0']: (case['clock0'], dict(state))}
        prev = None
        for (g, dt), call in zip(ticks, calls):
            c = case['clock0'] + (g - case['gtime0'])
            if call['clock'] != c or call['dt'] != dt:
                fails.append(f'fire-once: tick at engine time {g}: process saw clock '
                             f'{call["clock"]}, timestep {call["dt"]}; expected {c}, {dt}')
                break
            want = _due_writes(merged, prev, c)
            got = {}
            bad = None
            for p, w in call['writes']:
                if p == ['global', 'time']:
                    if w != ['raw', dt]:
                        bad = f'global.time update {w}'
                elif w[0] == 'leaf' and w[1] == 'set' and not w[3]:
                    got[tuple(p)] = w[2]
                else:
                    bad = f'unexpected update at {p}: {w}'
            if ['global', 'time'] not in [p for p, _ in call['writes']]:
                bad = 'no global.time increment'
            if bad:
                fails.append(f'fire-once: tick at clock {c}: {bad}')
                break
            if got != want:
                fails.append(f'fire-once: tick at clock {c} (previous tick clock {prev}) carries writes '
                             f'{_short(sorted(got.items()))}; events due exactly now require '
                             f'{_short(sorted(want.items()))}')
                break
            for p, v in want.items():
                if p in state:
                    state[p] = v
            expected_rows[g + dt] = (c + dt, dict(state))
            prev = c
        if not fails:
            cur = None
            seen = set()
            for T, clock, vs in impl['rows']:
                if T in expected_rows:
                    cur = expected_rows[T]
                    seen.add(T)
                got = {tuple(p): v for p, v in vs}
                if cur is None or clock != cur[0] or got != cur[1]:
                    fails.append(f'emitted-row: at time {T} clock={clock} vars={_short(sorted(got.items()))}; '
                                 f'expected {_short(cur and [cur[0], sorted(cur[1].items())])}')
                    break
            missing = sorted(set(expected_rows) - seen)
            if missing and not fails:
                fails.append(f'emitted-row: no row emitted at {missing}')
        if 'perm_err' in impl:
            fails.append(f'any-order: permuted listing raised {impl["perm_err"]}')
        elif 'perm_rows' in impl:
            if impl['perm_rows'] != impl['rows']:
                fails.append(f'any-order: listing permuted by {case["perm"]} gives a different trajectory')
            elif impl['perm_timeline'] != impl['timeline']:
                fails.append(f'any-order: listing permuted by {case["perm"]} gives a different timeline')
        return fails
    # nu: direct next_update sequence with arbitrary clocks
    ib = impl.get('built', {})
    has_empty = any(len(p) == 0 for _, ch in events for p, _ in ch)
    if 'err' in ib:
        if not has_empty:
            fails.append(f'construction-raised: {ib["err"]} on a well-formed timeline')
        return fails
    if has_empty:
        return fails
    _check_built(events, ib['ok']['timeline'], fails)
    if impl.get('params_mutated'):
        fails.append('next_update changed the values of the listed events in the process parameters')
    hi = None
    for c, dt, call in zip(case['clocks'], case['dts'], impl['calls']):
        if 'err' in call:
            fails.append(f'next_update-raised: {call["err"]}')
            break
        # events due now: time <= c and not fired before (fired before = time <= max earlier clock)
        want = _due_writes(merged, hi, c) if (hi is None or c > hi) else {}
        got = {}
        for p, w in call['writes']:
            if p == ['global', 'time']:
                if w != ['raw', dt]:
                    fails.append(f'fire-once: global.time update {w}, timestep {dt}')
            elif w[0] == 'leaf' and w[1] == 'set' and not w[3]:
                got[tuple(p)] = w[2]
            else:
                fails.append(f'fire-once: unexpected update at {p}: {w}')
        if got != want:
            fails.append(f'fire-once: call at clock {c} (highest earlier clock {hi}) carries '
                         f'{_short(sorted(got.items()))}; required {_short(sorted(want.items()))}')
            break
        left_want = [t for t, _ in merged if t > max(c, hi if hi is not None else c)]
        if [t for t, _ in call['left']] != left_want:
            fails.append(f'fire-once: after the call at clock {c} events at '
                         f'{[t for t, _ in call["left"]]} remain; expected {left_want}')
            break
        hi = c if hi is None else max(hi, c)
    return fails


def nontrivial(case, impl):
    ev = case['events']
    if len(ev) < 2 or not isinstance(impl, dict):
        return False
    times = [t for t, _ in ev]
    unsorted = times != sorted(times)
    dup = len(set(times)) < len(times)
    calls = impl.get('calls', [])
    fired = [c for c in calls if isinstance(c, dict) and len(c.get('writes', [])) > 1]
    multi = False
    lefts = [len(c['left']) for c in calls if isinstance(c, dict) and 'left' in c]
    n0 = len(set(times))
    for a, b in zip([n0] + lefts, lefts):
        if a - b >= 2:
            multi = True
    return bool(fired) and (unsorted or dup or multi)


def classify(case, failure):
    return None


def stats(results):
    from collections import Counter
    kinds = Counter(r['case']['kind'] for r in results)
    n_events = Counter(min(len(r['case']['events']), 12) for r in results)
    uns = dup = multi = neg = trunc = 0
    for r in results:
        c = r['case']
        times = [t for t, _ in c['events']]
        uns += times != sorted(times)
        dup += len(set(times)) < len(times)
        neg += any(t <= 0 for t in times)
        if c['kind'] == 'sim':
            trunc += any(L % c['ts'] for L in c['runs'])
        calls = r['impl'].get('calls', []) if isinstance(r['impl'], dict) else []
        lefts = [len(x['left']) for x in calls if isinstance(x, dict) and 'left' in x]
        for a, b in zip([len(set(times))] + lefts, lefts):
            if a - b >= 2:
                multi += 1
                break
    coll = 0
    for r in results:
        seen = {}
        for _, ch in r['case']['events']:
            for pth, v in ch:
                if isinstance(v, dict):
                    seen[tuple(pth)] = seen.get(tuple(pth), 0) + 1
        coll += any(n >= 2 for n in seen.values())
    return {'kinds': dict(kinds), 'variables_with_several_compound_writes': coll, 'events_per_timeline': dict(sorted(n_events.items())),
            'unsorted_listings': uns, 'duplicate_times': dup, 'several_due_in_one_tick': multi,
            'nonpositive_times': neg, 'truncated_last_tick': trunc,
            'permuted_reruns': sum(1 for r in results if isinstance(r['impl'], dict) and 'perm_rows' in r['impl'])}


def shrink(case):
    ev = case['events']
    for i in range(len(ev)):
        c = copy.deepcopy(case)
        c['events'] = ev[:i] + ev[i + 1:]
        if 'perm' in c:
            c['perm'] = [j - (j > i) for j in case['perm'] if j != i]
        yield c
    for i, (t, ch) in enumerate(ev):
        for k in range(len(ch)):
            c = copy.deepcopy(case)
            c['events'][i][1] = ch[:k] + ch[k + 1:]
            yield c
    if case['kind'] == 'sim':
        if len(case['runs']) > 1:
            c = copy.deepcopy(case)
            c['runs'] = case['runs'][:-1]
            yield c
        if case.get('holder') == 'proc':
            c = copy.deepcopy(case)
            c['holder'] = 'step'
            yield c
        if case.get('perm') != list(range(len(ev))):
            c = copy.deepcopy(case)
            c['perm'] = list(range(len(ev)))
            yield c
    else:
        if len(case['clocks']) > 1:
            c = copy.deepcopy(case)
            c['clocks'] = case['clocks'][:-1]
            c['dts'] = case['dts'][:-1]
            yield c


LEVEL_TEXT = ('Lean 4 theorems, for all finite listings and all tick sequences (unbounded): the built '
              'timeline is strictly sorted, has exactly the listed times, and its event at t is the '
              'right-biased merge in listing order of the events listed at t; it depends only on the '
              'per-time sub-listings (any permutation keeping equal-time events in order, any '
              'permutation at all for distinct times); next_update pops exactly the events that are due; '
              'over any non-decreasing clock sequence every event is fired exactly once, at the first tick '
              'whose clock has reached its time, in time order, however many are due; a tick sets every '
              'driven variable to its last due write, whatever the values (scalars, lists, dicts); the trajectory is invariant under such '
              'permutations; Engine.update terminates with ticks of the timestep plus a truncated last '
              'one. The model is tied to timeline.py and to a real Engine run by the correspondence check.')
LEVEL_NOTE = ('Trusted: Lean kernel; axioms ⊆ {propext, Classical.choice, Quot.sound}; the hand-written '
              'model of timeline.py (nested_set, deep_merge_combine_lists for the ports) and of the single-process tick loop of '
              'Engine.update / leaf Store.apply_update, validated on every case against a real Engine. '
              'Float times are outside the model (integer times only).')
TECHNIQUE = 'Lean 4 proof by induction over listings and tick sequences + model/code correspondence (differential, real Engine)'


# a timeline under mixed run_for()/update() calls, and event value objects that are due more than once
from harness import lagclock as _lc                     # noqa: E402
from harness.mixins import add_family as _add_family    # noqa: E402
_add_family(globals(), _lc, 'lagclock', _lc.oracle, share=0.02)
