"""C07 — a process sees exactly its declared variables, always from the current hierarchy.

Correspondence: the `states` handed to a probe process by the REAL engine at every invocation
(calculate_timestep, update_condition, next_update) vs `processStates` of VivModel/Topology.lean on a
snapshot of the hierarchy taken at that moment.  Oracle (independent of the model): a projection of
`Engine.state.get_value()` through (schema, topology), written from the documentation
(harness/topo_common.py: project), must equal `states` at every invocation — while another process
issues `_add/_delete/_generate/_divide/_move` and the probe itself writes its variables."""
import copy

from harness.val import enc, dec, exc_name, sort_enc
from harness import topo_common as T
from harness.topo_common import leaf_schema, dict_schema, dict_topo, nest, rel_path, VARS
from harness.props import c06

PROP = 'C07'
LEAN_TARGETS = ['VivProps.C07']
DRIVER = 'Topo'
REQUIRED_THEOREMS = ['keys_exactly_declared', 'glob_one_entry_per_current_child', 'output_port_empty',
                     'all_port_subtree', 'declared_variable_current_value', 'expire_complete',
                     'view_unchanged_by_value_update', 'fresh', 'fresh_states', 'glob_empty_subschema_entries_empty']
ANCHORS = [
    ('vivarium/core/store.py', ['Store.schema_topology', 'Store.build_topology_views', 'Store.get_path',
                                'Store.get_value', 'Store.outer_path', 'view_values',
                                'Store.apply_update', 'Store._apply_subschema_path', 'Store.add',
                                'Store.topology_state']),
    ('vivarium/core/engine.py', ['Engine._process_state', 'Engine._send_updates', 'Engine.run_steps',
                                 'Engine.apply_update', 'Engine._calculate_update']),
]
BUDGET = {'quick': 400, 'thorough': 8000}
RULE = ('cases: the C06 generator (valid stream) plus two glob stores the probe watches through glob ports '
        '(tuple, {"*": path}, dictionary sub-topology with renames), extra undeclared variables, and a '
        'history of 3-6 steps in which an actor process issues 1-2 structural updates per step '
        '(_add/_delete/_generate/_divide/_move between the two glob stores) while the probe writes its own '
        'variables; `states` is checked at every invocation. Non-trivial: the history changed the set of '
        'children the probe sees at least once. Distinct by canonical JSON of the case.')
TRUSTED = ['the structural operations themselves (C09/C10/C11): their effect is taken from the real '
           'store (`get_value()` and a snapshot of the Store tree) as the current hierarchy']
ASSUMPTIONS = c06.ASSUMPTIONS + [
    'structural updates do not delete nodes that lie on the route of one of the probe\'s topology paths',
]
CASE_TIMEOUT = 20.0
GLOBS = [['GG'], ['HH']]


def gen_case(rng, tier):
    base = c06.gen_case(rng, tier, force_malformed=False)
    base['malformed'] = None
    probe = base['procs'][0]
    loc = probe['at']
    vs = rng.sample(VARS, rng.choice([1, 2, 2]))
    gform = rng.choice(['below', 'star', 'subtopo'])
    rename = {}
    if gform == 'subtopo':
        for v in vs:
            if rng.random() < 0.6:
                rename[v] = v + v
    real = [rename.get(v, v) for v in vs]
    sub = dict_schema([[v, leaf_schema(7)] for v in vs])
    init = dec(base['init'])
    kids = {0: [], 1: []}
    counter = [0]

    def fresh():
        counter[0] += 1
        return f'k{counter[0]}'

    def state(r):
        # (falsy current values included: a variable that holds 0 is shown as 0, not as its default)
        return {v: (0 if r.random() < 0.25 else r.randrange(10, 99)) for v in real}

    for gi, (name, G) in enumerate(zip(['pg', 'ph'], GLOBS)):
        if gform == 'below':
            t = rel_path(rng, loc, G)
        elif gform == 'star':
            t = dict_topo([['*', rel_path(rng, loc, G)]])
        else:
            t = dict_topo([['*', dict_topo([['_path', rel_path(rng, loc, G)]] +
                                           [[v, [rename.get(v, v)]] for v in vs])]])
        probe['schema']['s'].append([name, dict_schema([['*', sub]])])
        probe['topo']['t'].append([name, t])
        if gform != 'subtopo':
            for _ in range(rng.choice([0, 1, 2])):
                k = fresh()
                kids[gi].append(k)
                init.setdefault(G[0], {})[k] = state(rng)
    base['init'] = enc(init)
    actor_schema = [['g', dict_schema([], out=True)], ['h', dict_schema([], out=True)]]
    actor_topo = [['g', GLOBS[0]], ['h', GLOBS[1]]]
    has_u9 = rng.random() < 0.7
    if has_u9:
        # the children of the glob stores also hold a variable the probe did NOT declare
        for nm, G in (('e', GLOBS[0]), ('f', GLOBS[1])):
            actor_schema.append([nm, dict_schema([['*', dict_schema([['u9', leaf_schema(3)]])]])])
            actor_topo.append([nm, G])
        real = real + ['u9']
        init = dec(base['init'])
        for G in GLOBS:
            for k, st in init.get(G[0], {}).items():
                st['u9'] = rng.randrange(100, 200)
        base['init'] = enc(init)
    base['procs'].append({'at': [], 'name': 'actor', 'schema': dict_schema(actor_schema),
                          'topo': dict_topo(actor_topo)})
    # the history
    ops = []
    for _ in range(rng.choice([3, 4, 5, 6])):
        step = []
        before = {0: list(kids[0]), 1: list(kids[1])}
        for _ in range(rng.choice([1, 1, 2])):
            gi = rng.randrange(2)
            port = 'gh'[gi]
            choices = ['add', 'generate']
            if kids[gi]:
                choices += ['delete', 'divide', 'move', 'add']
            op = rng.choice(choices)
            if any(o['port'] == port or o['op'] == 'move' for o in step) or (op == 'move' and step):
                continue        # one structural dictionary per store and step
            if op == 'add':
                k = fresh()
                step.append({'op': 'add', 'port': port, 'key': k, 'state': state(rng)})
                kids[gi].append(k)
            elif op == 'generate':
                k = fresh()
                step.append({'op': 'generate', 'port': port, 'key': k, 'state': state(rng)})
                kids[gi].append(k)
            elif op == 'delete':
                k = rng.choice(kids[gi])
                step.append({'op': 'delete', 'port': port, 'key': k})
                kids[gi].remove(k)
            elif op == 'divide':
                k = rng.choice(kids[gi])
                d1, d2 = fresh(), fresh()
                step.append({'op': 'divide', 'port': port, 'key': k, 'daughters': [d1, d2]})
                kids[gi].remove(k)
                kids[gi] += [d1, d2]
            else:
                k = rng.choice(kids[gi])
                step.append({'op': 'move', 'port': port, 'key': k, 'target': 'gh'[1 - gi]})
                kids[gi].remove(k)
                kids[1 - gi].append(k)
        if has_u9 and step and rng.random() < 0.5:
            # the same update also carries an ordinary update of a child that this step leaves alone, in a branch
            # of the update that comes after the structural one
            used = {o['key'] for o in step} | {d for o in step for d in o.get('daughters', [])}
            for gi2 in (1, 0):
                cands = [k for k in before[gi2] if k in kids[gi2] and k not in used]
                if cands and not any(o['op'] == 'move' for o in step):
                    step.append({'op': 'touch', 'port': 'ef'[gi2], 'key': rng.choice(cands)})
                    break
        ops.append(step)
    base['kind'] = 'hist'
    base['ops'] = ops
    base['actor'] = len(base['procs']) - 1
    return base


def generate(rng, n, tier):
    return [gen_case(rng, tier) for _ in range(n)]


def corpus():
    L = leaf_schema
    sub = dict_schema([['x', L(7)]])

    def mk(topo_g, ops, init=None, extra_ports=(), at=()):
        ports = [('pg', dict_schema([['*', sub]]), topo_g),
                 ('ph', dict_schema([['*', sub]]), dict_topo([['*', rel_to(at, ['HH'])]]))] + list(extra_ports)
        c = c06._mk(ports, at=at, init=init or {}, vars_=[])
        c['procs'].append({'at': [], 'name': 'actor',
                           'schema': dict_schema([['g', dict_schema([], out=True)],
                                                  ['h', dict_schema([], out=True)]]),
                           'topo': dict_topo([['g', ['GG']], ['h', ['HH']]])})
        c.update({'kind': 'hist', 'ops': ops, 'actor': len(c['procs']) - 1})
        return c

    def rel_to(at, G):
        return ['..'] * len(at) + G

    return [
        # a child added, then divided, then one daughter deleted: seen from the next invocation on
        mk(dict_topo([['*', ['GG']]]),
           [[{'op': 'add', 'port': 'g', 'key': 'k1', 'state': {'x': 5}}],
            [{'op': 'divide', 'port': 'g', 'key': 'k1', 'daughters': ['k2', 'k3']}],
            [{'op': 'delete', 'port': 'g', 'key': 'k2'}]]),
        # moved away from one glob store into the other
        mk(['..', 'GG'],
           [[{'op': 'move', 'port': 'g', 'key': 'k1', 'target': 'h'}],
            [{'op': 'generate', 'port': 'h', 'key': 'k9', 'state': {'x': 3}}]],
           init={'GG': {'k1': {'x': 11}, 'k2': {'x': 12}}}, at=['c1']),
        # undeclared variables next to declared ones, `**` and `_output` ports
        mk(dict_topo([['*', dict_topo([['_path', ['GG']], ['x', ['xx']]])]]),
           [[{'op': 'add', 'port': 'g', 'key': 'k1', 'state': {'xx': 5}}]],
           extra_ports=[('a', dict_schema([['x', L(1)]]), ['A']), ('s', '**', ['A']),
                        ('o', dict_schema([['y', L(2)]], out=True), ['A'])],
           init={'A': {'x': 4, 'y': 6}}),
    ]


# ------------------------------------------------------------------ implementation side

def _actor_update(step):
    u = {}
    for o in step:
        d = u.setdefault(o['port'], {})
        if o['op'] == 'add':
            d.setdefault('_add', []).append({'key': o['key'], 'state': copy.deepcopy(o['state'])})
        elif o['op'] == 'generate':
            d.setdefault('_generate', []).append({'key': o['key'], 'processes': {}, 'topology': {},
                                                  'initial_state': copy.deepcopy(o['state'])})
        elif o['op'] == 'delete':
            d.setdefault('_delete', []).append(o['key'])
        elif o['op'] == 'divide':
            d['_divide'] = {'mother': o['key'],
                            'daughters': [{'key': k, 'processes': {}, 'topology': {}} for k in o['daughters']]}
        elif o['op'] == 'move':
            d.setdefault('_move', []).append({'source': (o['key'],), 'target': o['target']})
        elif o['op'] == 'touch':
            d[o['key']] = {'u9': 1}
    return u


def run_impl(case):
    vs = case['vars']
    nsteps = len(case['ops']) + 1
    probe_script = [nest(vs[i % len(vs)], 2 ** i) if vs else {} for i in range(nsteps)]
    actor_script = [_actor_update(s) for s in case['ops']] + [{}]
    p = case['procs'][case['probe']]
    schema, topo = T.py_schema(p['schema']), T.py_topo(p['topo'])
    holder = {}
    fails = []

    def on_call(rec, states):
        eng = holder.get('eng')
        if eng is None:
            return
        rec['tree'] = T.snapshot(eng.state)
        try:
            want = T.project(T.canon(eng.state.get_value()), p['at'], schema, topo)
        except Exception as e:  # noqa
            fails.append(f"projection-failed: {type(e).__name__}: {e}")
            return
        got = T.canon(states)
        if got != want:
            fails.append(f"states-differ-from-hierarchy: at {rec['kind']} #{rec['step']}: "
                         f"states={_short(got)} current hierarchy projects to {_short(want)}")

    try:
        eng, objs = T.build_engine(case, {case['probe']: probe_script, case['actor']: actor_script}, on_call)
    except Exception as e:  # noqa
        return {'init_err': exc_name(e), 'msg': str(e)[:200],
                'fails': [f'valid-case-rejected: {type(e).__name__}: {str(e)[:200]}']}
    holder['eng'] = eng
    probe = objs[case['probe']]
    err = None
    children = []
    for i in range(nsteps):
        try:
            eng.update(1)
        except Exception as e:  # noqa
            err = {'err': exc_name(e), 'msg': f'{type(e).__name__}: {str(e)[:200]}', 'step': i}
            fails.append(f"engine-raised: step {i}: {err['msg']}")
            break
    calls = [{'kind': r['kind'], 'step': r['step'], 'states': r['states'], 'tree': r.get('tree')}
             for r in probe.seen]
    return {'calls': calls, 'err': err, 'fails': fails[:5]}


# ------------------------------------------------------------------ model side

def model_requests(case):
    return []


def _model_calls(impl):
    return [c for c in impl.get('calls', []) if c['kind'] == 'next_update' and c.get('tree')]


def model_requests_impl(case, impl):
    if not isinstance(impl, dict) or 'calls' not in impl:
        return []
    p = case['procs'][case['probe']]
    return [{'op': 'states', 't': c['tree'], 'outer': p['at'], 'schema': p['schema'], 'topo': p['topo']}
            for c in _model_calls(impl)]


def model_obs(case, ans):
    return {'states': ans}


def compare(case, impl, model):
    if not isinstance(impl, dict) or ('calls' not in impl and 'init_err' not in impl):
        return f'implementation probe failed: {_short(impl)}'
    if 'init_err' in impl:
        return None
    diffs = []
    for i, (c, m) in enumerate(zip(_model_calls(impl), model['states'])):
        if sort_enc(m) != sort_enc({'ok': c['states']}):
            diffs.append(f'invocation {i}: impl states={_short(c["states"])} model={_short(m)}')
    return '; '.join(diffs[:3]) if diffs else None


def _short(x):
    import json
    s = json.dumps(x, default=str)
    return s if len(s) < 400 else s[:400] + '…'


def oracle(case, impl):
    if not isinstance(impl, dict) or 'fails' not in impl:
        return [f'probe-crashed: {_short(impl)}']
    return impl['fails']


def _child_sets(impl):
    out = []
    for c in impl.get('calls', []):
        if c['kind'] == 'next_update':
            st = dec(c['states'])
            out.append(tuple(sorted((k, tuple(sorted(v))) for k, v in st.items()
                                    if k in ('pg', 'ph') and isinstance(v, dict))))
    return out


def nontrivial(case, impl):
    if not isinstance(impl, dict) or 'calls' not in impl:
        return False
    return len(set(_child_sets(impl))) >= 2


def classify(case, failure):
    return None


def stats(results):
    from collections import Counter
    c = Counter()
    for r in results:
        case, impl = r['case'], r['impl']
        for step in case.get('ops', []):
            for o in step:
                c['op:' + o['op']] += 1
        c['depth:%d' % len(case['procs'][0]['at'])] += 1
        if isinstance(impl, dict):
            c['invocations'] += len(impl.get('calls', []))
            if impl.get('err'):
                c['engine_err'] += 1
            if 'init_err' in impl:
                c['init_err'] += 1
            c['views_changed'] += int(len(set(_child_sets(impl))) >= 2)
    return dict(c)


def shrink(case):
    # histories are only valid as prefixes (later operations refer to earlier children)
    for i in range(len(case.get('ops', [])) - 1, -1, -1):
        c = copy.deepcopy(case)
        c['ops'] = c['ops'][:i]
        yield c
    for i in range(len(case['vars'])):
        c = copy.deepcopy(case)
        del c['vars'][i]
        yield c
    p = case['procs'][0]
    for i in range(len(p['schema']['s'])):
        name = p['schema']['s'][i][0]
        if name in ('pg', 'ph'):
            continue
        c = copy.deepcopy(case)
        del c['procs'][0]['schema']['s'][i]
        c['procs'][0]['topo']['t'] = [e for e in c['procs'][0]['topo']['t'] if e[0] != name]
        c['vars'] = [v for v in c['vars'] if v[0] != name]
        yield c


LEVEL_TEXT = ('Lean 4 theorems over all trees, schemas and topologies (unbounded): whenever the view is built, '
              'the values a process receives equal the specification projection computed lexically on the '
              'current tree (declared variable ↦ current value, "*" ↦ one entry per current child restricted to '
              'the sub-schema, "**" ↦ subtree, _output ↦ {}, keys = declared keys); the cached view stays '
              'valid under value updates (shape preserved) and is rebuilt after every structural key '
              '(table extracted from store.py), so at every invocation it equals the view recomputed on the '
              'current tree, for all histories. Tied to the code by a differential check at every invocation '
              'plus an independent projection oracle.')
LEVEL_NOTE = ('Trusted: Lean kernel; axioms ⊆ {propext, Classical.choice, Quot.sound}; hand-written model validated '
              'differentially; the effect of structural operations on the tree is an arbitrary new tree in the '
              'freshness theorem (their own semantics belong to C09-C11).')
TECHNIQUE = 'Lean 4 proof (structural induction on schemas; invariant over histories) + differential model/code check'


# structural updates issued by steps (views must be rebuilt when ANY update of a layer expires them),
# and instances of one process class sharing their ports_schema dictionary
from harness import structstep as _ss          # noqa: E402
from harness import schemaleak as _sl          # noqa: E402
from harness.mixins import add_family as _add_family   # noqa: E402
_add_family(globals(), _ss, 'structstep', lambda case, impl: _ss.oracle(case, impl, who=('viewer', 'census')), share=0.06)
_add_family(globals(), _sl, 'schemaleak', lambda case, impl: _sl.oracle(case, impl, who=('views',)), share=0.04)

from harness import storeinit as _si                    # noqa: E402
_add_family(globals(), _si, 'storeinit', _si.oracle, share=0.05)


# the view handed to each of the three calls, also inside a worker
from harness import parviews as _pv                     # noqa: E402
_add_family(globals(), _pv, 'parviews', _pv.oracle, share=0.02)


# children moved between collections by an update issued at their common ancestor
from harness import movefar as _mf                      # noqa: E402
_add_family(globals(), _mf, 'movefar', _mf.oracle, share=0.04)


# an update condition over a collection whose members are deleted, moved away and added
from harness import gonecond as _gc                     # noqa: E402
_add_family(globals(), _gc, 'gonecond', _gc.oracle, share=0.03)
