"""C10 — the engine runs exactly what is in the hierarchy after any structural history.

A director process issues a scripted history of `_generate` / `_delete` / `_divide` / `_move`
updates against compartments holding processes, legacy derivers and flow steps with heterogeneous
timesteps (so updates are in flight when structure changes).  After every batch the engine's
bookkeeping (`process_paths`, `_step_paths`, execution layers) is compared with
`VivModel/Book.lean` fed with the reports those operations produce, and with the hierarchy itself
(oracle); the invocation log is checked against creation/deletion times; at the end an engine is
rebuilt from the published composite and must continue identically."""
import copy
import itertools

PROP = 'C10'
LEAN_TARGETS = ['VivProps.C10']
DRIVER = 'Book'
REQUIRED_THEOREMS = ['reused_path_starts_fresh', 'replaced_path_starts_fresh', 'bookkeeping_step', 'bookkeeping_history', 'deleted_not_listed',
                     'additions_keep_steps_scheduled', 'deletion_keeps_steps_scheduled_partial',
                     'dependants_dropped_witness', 'restructured_pass_progress',
                     'only_listed_processes_run', 'new_start_now_survivors_keep']
ANCHORS = [
    ('vivarium/core/engine.py', ['Engine.apply_update', 'Engine._delete_path', 'Engine._add_process_path',
                                 'Engine._add_step_path', 'Engine._find_process_paths',
                                 'Engine._find_step_paths', 'Engine._remove_deleted_processes',
                                 'Engine.run_for', 'Engine.run_steps', 'Engine._send_updates',
                                 '_StepGraph.add', '_StepGraph.add_sequential', '_StepGraph.remove',
                                 '_StepGraph.get_execution_layers', 'starts_with']),
    ('vivarium/core/store.py', ['Store.insert', 'Store.divide', 'Store.move', 'Store.delete',
                                'Store._delete_path', 'Store.get_processes', 'Store.get_steps',
                                'Store.get_flow', 'Store.get_topology', 'Store.depth']),
]
BUDGET = {'quick': 120, 'thorough': 4000}
RULE = ('history = 1–7 structural operations (generate a compartment, delete one, divide one into two daughters, '
        'move one to another store) issued one per tick by a director process against 0–2 initial compartments; '
        'each compartment holds 1–2 processes with timesteps 1–4, optionally a legacy deriver and/or flow steps '
        'a ← b; 1–3 run_for/update calls. Non-trivial: ≥ 2 operations of at least 2 kinds with a compartment '
        'holding a process whose timestep is > 1 (update in flight when structure changes).')
TRUSTED = ['the report each structural operation produces is modelled in StoreOps.lean (C09); here reports are '
           'derived by the harness from the operations following Store.insert/divide/move/delete',
           'networkx (replaced by explicit definitions, compared on every history)']
ASSUMPTIONS = ['process and step code terminates, does not raise, is deep-copyable']
CASE_TIMEOUT = 30.0

_ids = itertools.count()


# ------------------------------------------------------------------ generator

def gen_cell(rng):
    procs = {'p': rng.choice([1, 1, 2, 3, 4])}
    if rng.random() < 0.4:
        procs['q'] = rng.choice([1, 2, 3])
    steps = {}
    r = rng.random()
    if r < 0.25:
        steps['d'] = None
    elif r < 0.55:
        steps['a'] = []
        steps['b'] = [['a']]
        if rng.random() < 0.4:
            steps['d'] = None
    elif r < 0.65:
        steps['b'] = [['a']]      # registered before its dependency
        steps['a'] = []
    return {'procs': procs, 'steps': steps}


def generate(rng, n, tier):
    out = []
    for _ in range(n):
        cells = {}
        specs = {}
        init = []
        for i in range(rng.choice([0, 1, 1, 2])):
            name = f'c{i}'
            spec = gen_cell(rng)
            cells[name] = 'agents'
            specs[name] = spec
            init.append({'key': name, 'spec': spec})
        ops = []
        dead = []
        counter = len(init)
        for _ in range(rng.randrange(1, 8)):
            live = [c for c, s in cells.items() if s == 'agents']
            anyc = list(cells)
            r = rng.random()
            if r < 0.35 or not anyc:
                if dead and rng.random() < 0.4:
                    name = rng.choice(dead)      # a new compartment at a path that was deleted earlier
                    dead.remove(name)
                else:
                    name = f'c{counter}'
                    counter += 1
                specs[name] = gen_cell(rng)
                ops.append({'op': 'generate', 'key': name, 'spec': specs[name]})
                cells[name] = 'agents'
            elif r < 0.55:
                c = rng.choice(anyc)
                ops.append({'op': 'delete', 'store': cells[c], 'key': c})
                if cells[c] == 'agents':
                    dead.append(c)
                del cells[c]
            elif r < 0.8 and live:
                c = rng.choice(live)
                d1, d2 = f'c{counter}', f'c{counter + 1}'
                counter += 2
                # daughters are compartments of the mother's kind (Store.divide copies the mother's
                # flow when a daughter brings none, so the step sets must agree)
                dspec = specs[c]
                ops.append({'op': 'divide', 'mother': c, 'daughters': [d1, d2], 'spec': dspec})
                del cells[c]
                cells[d1] = 'agents'
                cells[d2] = 'agents'
                specs[d1] = dspec
                specs[d2] = dspec
            elif live:
                # moving a compartment whose process has an update in flight is known finding F19:
                # move only compartments whose processes all tick every time unit
                movable = [c for c in live if all(ts == 1 for ts in specs[c]['procs'].values())]
                if not movable:
                    continue
                c = rng.choice(movable)
                ops.append({'op': 'move', 'key': c})
                cells[c] = 'agents2'
        total = len(ops) + rng.randrange(1, 5)
        calls = []
        left = total
        while left > 0:
            iv = min(left, rng.choice([1, 2, 3, 4, 6]))
            calls.append([iv, rng.random() < 0.5])
            left -= iv
        calls[-1][1] = True
        out.append({'init': init, 'ops': ops, 'calls': calls})
    return out


def corpus():
    ab = {'procs': {'p': 2}, 'steps': {'a': [], 'b': [['a']]}}
    dv = {'procs': {'p': 3, 'q': 1}, 'steps': {'d': None}}
    return [
        # F8/F9 witnesses: division and move of compartments with steps
        {'init': [{'key': 'c0', 'spec': ab}], 'ops': [{'op': 'divide', 'mother': 'c0', 'daughters': ['c1', 'c2'], 'spec': ab}],
         'calls': [[4, True]]},
        {'init': [{'key': 'c0', 'spec': {'procs': {'p': 1, 'q': 1}, 'steps': {'d': None}}}],
         'ops': [{'op': 'move', 'key': 'c0'}], 'calls': [[2, False], [3, True]]},
        # F19: a compartment moved while one of its processes has an update in flight
        {'init': [{'key': 'c0', 'spec': dv}], 'ops': [{'op': 'move', 'key': 'c0'}], 'calls': [[3, True]]},
        {'init': [{'key': 'c0', 'spec': ab}], 'ops': [{'op': 'move', 'key': 'c0'}, {'op': 'delete', 'store': 'agents2', 'key': 'c0'}],
         'calls': [[5, True]]},
        {'init': [], 'ops': [{'op': 'generate', 'key': 'c0', 'spec': dv}, {'op': 'generate', 'key': 'c1', 'spec': ab},
                             {'op': 'delete', 'store': 'agents', 'key': 'c0'}], 'calls': [[3, False], [4, True]]},
        # F10: deleting a step that a surviving step depends on (the step sits in a sub-compartment)
        {'init': [{'key': 'c0', 'spec': {'procs': {'p': 1}, 'steps': {'b': [['inner', 'a']]},
                                         'inner_steps': {'a': []}}}],
         'ops': [{'op': 'delete_inner', 'key': 'c0'}], 'calls': [[3, True]]},
    ]


# ------------------------------------------------------------------ building the real thing

class DynCtx:
    def __init__(self):
        self.engine = None
        self.log = []
        self.script = []
        self.snaps = []

    def now(self):
        return 0 if self.engine is None else int(round(self.engine.global_time))

    def start_of(self, process):
        """how far `process` had been simulated when it is invoked (its front time)"""
        try:
            for path, proc in self.engine.process_paths.items():
                if proc is process:
                    return int(round(self.engine.front[path]['time']))
        except Exception:  # noqa
            pass
        return None


def _cell_objects(spec, cellname, key):
    from harness.probes import CellProc, CellStep
    procs, steps, flow, topo = {}, {}, {}, {}
    for pname, ts in spec['procs'].items():
        procs[pname] = CellProc({'ts': ts, 'id': f'{cellname}/{pname}#{next(_ids)}', 'ctx_key': key})
        topo[pname] = {'vars': ('..', '..', 'vars')}
    for sname, deps in spec['steps'].items():
        steps[sname] = CellStep({'id': f'{cellname}/{sname}#{next(_ids)}', 'ctx_key': key})
        topo[sname] = {'vars': ('..', '..', 'vars')}
        if deps is not None:
            flow[sname] = [tuple(d) for d in deps]
    if spec.get('inner_steps'):
        steps['inner'] = {}
        topo['inner'] = {}
        flow['inner'] = {}
        for sname, deps in spec['inner_steps'].items():
            steps['inner'][sname] = CellStep({'id': f'{cellname}/inner/{sname}#{next(_ids)}', 'ctx_key': key})
            topo['inner'][sname] = {'vars': ('..', '..', '..', 'vars')}
            flow['inner'][sname] = [tuple(d) for d in deps]
    return procs, steps, flow, topo


def _directive(op, key):
    if op['op'] == 'generate':
        procs, steps, flow, topo = _cell_objects(op['spec'], op['key'], key)
        return {'agents': {'_generate': [{'key': op['key'], 'processes': procs, 'steps': steps, 'flow': flow,
                                          'topology': topo, 'initial_state': {}}]}}
    if op['op'] == 'delete':
        return {op['store']: {'_delete': [op['key']]}}
    if op['op'] == 'delete_inner':
        return {'agents': {op['key']: {'_delete': ['inner']}}}
    if op['op'] == 'divide':
        ds = []
        for d in op['daughters']:
            procs, steps, flow, topo = _cell_objects(op['spec'], d, key)
            ds.append({'key': d, 'processes': procs, 'steps': steps, 'flow': flow, 'topology': topo,
                       'initial_state': {}})
        return {'agents': {'_divide': {'mother': op['mother'], 'daughters': ds}}}
    if op['op'] == 'move':
        return {'agents': {'_move': [{'source': (op['key'],), 'target': 'agents2'}]}}
    raise ValueError(op)


def _leaf_paths(d, prefix=()):
    """paths of the leaves; empty dictionaries left behind by deletions are not leaves"""
    out = []
    if isinstance(d, dict):
        for k, v in d.items():
            out.extend(_leaf_paths(v, prefix + (k,)))
    elif d is not None:
        out.append(list(prefix))
    return out


def _step_paths_of(eng):
    """the engine's own list of step paths (a private attribute: None when it is not there under that
    name — the bookkeeping is then judged by its behaviour only: published composite, which steps run)"""
    sp = getattr(eng, '_step_paths', None)
    return None if sp is None else sorted(list(p) for p in sp)


def _layers_of(eng):
    g = getattr(eng, '_step_graph', None)
    fn = getattr(g, 'get_execution_layers', None)
    return None if fn is None else [[list(p) for p in layer] for layer in fn()]


def _snapshot(ctx):
    from vivarium.core.process import Process
    eng = ctx.engine
    nodes = eng.state.depth(filter_function=lambda s: isinstance(s.value, Process))
    tree_procs = sorted(list(p) for p, s in nodes if not s.value.is_step())
    tree_steps = sorted(list(p) for p, s in nodes if s.value.is_step())
    snap = {
        't': ctx.now(),
        'procPaths': sorted(list(p) for p in eng.process_paths),
        'stepPaths': _step_paths_of(eng),
        'layers': _layers_of(eng),
        'tree_procs': tree_procs, 'tree_steps': tree_steps,
        'published': {
            'processes': sorted(_leaf_paths(eng.processes)), 'steps': sorted(_leaf_paths(eng.steps)),
            'store_processes': sorted(_leaf_paths(eng.state.get_processes() or {})),
            'store_steps': sorted(_leaf_paths(eng.state.get_steps() or {})),
            'flow': _flow_items(eng.flow), 'store_flow': _flow_items(eng.state.get_flow() or {}),
            'topology_keys': sorted(_leaf_paths({k: (v if isinstance(v, dict) else 1) for k, v in
                                                 _strip_topology(eng.topology).items()})),
            'store_topology_keys': sorted(_leaf_paths({k: (v if isinstance(v, dict) else 1) for k, v in
                                                       _strip_topology(eng.state.get_topology() or {}).items()})),
        },
    }
    return snap


def _flow_items(f, prefix=()):
    """[(step path, dependency list)] of a flow dictionary, sorted; empty branches dropped"""
    out = []
    for k, v in (f or {}).items():
        if isinstance(v, dict):
            out.extend(_flow_items(v, prefix + (k,)))
        else:
            try:
                out.append([list(prefix + (k,)), [list(d) for d in v]])
            except TypeError:
                out.append([list(prefix + (k,)), repr(v)[:60]])
    return sorted(out, key=lambda x: x[0])


def _strip_topology(t):
    """keep the nesting down to process level only (a process's topology maps port names)"""
    out = {}
    for k, v in (t or {}).items():
        if isinstance(v, dict) and not v:
            out[k] = {}          # an emptied store
        elif isinstance(v, dict) and all(isinstance(x, dict) for x in v.values()) and \
                not any(isinstance(x, tuple) for x in v.values()):
            out[k] = _strip_topology(v)
        else:
            out[k] = 1
    return out


def run_impl(case):
    from vivarium.core.engine import Engine
    from vivarium.core.emitter import Emitter
    from vivarium.core.registry import emitter_registry
    from harness import probes
    key = f'c10-{next(_ids)}'
    ctx = DynCtx()
    probes.DYN_CTX[key] = ctx

    class SnapEmitter(Emitter):
        def emit(self, data):
            c = probes.DYN_CTX.get(self.config.get('ctx_key'))
            if c is not None and data['table'] == 'history' and c.engine is not None:
                c.snaps.append(_snapshot(c))
                c.log.append({'e': 'emit', 't': c.now(), 'x': data['data'].get('vars', {}).get('x')})
    if emitter_registry.access('verif_snap') is None:
        emitter_registry.register('verif_snap', SnapEmitter)
    obs = {'snaps': ctx.snaps, 'log': ctx.log}
    try:
        processes = {'director': probes.Director({'ctx_key': key}), 'agents': {}}
        topology = {'director': {'agents': ('agents',), 'agents2': ('agents2',), 'vars': ('vars',)}, 'agents': {}}
        steps, flow = {'agents': {}}, {'agents': {}}
        for c in case['init']:
            p, s, f, t = _cell_objects(c['spec'], c['key'], key)
            processes['agents'][c['key']] = p
            steps['agents'][c['key']] = s
            flow['agents'][c['key']] = f
            topology['agents'][c['key']] = t
        ctx.script = [_directive(op, key) for op in case['ops']]
        eng = Engine(processes=processes, steps=steps, flow=flow, topology=topology,
                     initial_state={'vars': {'x': 0}}, emitter={'type': 'verif_snap', 'ctx_key': key},
                     display_info=False, progress_bar=False)
        ctx.engine = eng
        ctx.snaps.append(_snapshot(ctx))
        for iv, force in case['calls']:
            if force:
                eng.update(iv)
            else:
                eng.run_for(iv)
        obs['gt'] = ctx.now()
        obs['front'] = sorted(list(p) for p in eng.front)
        # rebuild from the published composite at the quiescent end point
        if case['calls'] and case['calls'][-1][1]:
            obs['rebuild'] = _rebuild(eng, ctx, key)
    except Exception as e:  # noqa
        import traceback
        obs['raised'] = f'{type(e).__name__}: {str(e)[:200]}'
        obs['tb'] = traceback.format_exc()[-600:]
    finally:
        probes.DYN_CTX.pop(key, None)
    return obs


def _numeric_state(v):
    if isinstance(v, dict):
        out = {}
        for k, x in v.items():
            y = _numeric_state(x)
            if y is not None:
                out[k] = y
        return out
    if isinstance(v, (int, float)):
        return v
    return None


def _rebuild(eng, ctx, key):
    from vivarium.core.engine import Engine
    from harness import probes
    pub = copy.deepcopy({'processes': eng.processes, 'steps': eng.steps, 'flow': eng.flow,
                         'topology': eng.topology})
    state = _numeric_state(eng.state.get_value()) or {}
    rows_a, rows_b = [], []
    key2 = key + '-rebuilt'
    ctx2 = DynCtx()
    ctx2.script = ctx.script
    probes.DYN_CTX[key2] = ctx2

    def rekey(d):
        for v in d.values():
            if isinstance(v, dict):
                rekey(v)
            else:
                v.parameters['ctx_key'] = key2
    rekey(pub['processes'])
    rekey(pub['steps'])
    try:
        eng2 = Engine(processes=pub['processes'], steps=pub['steps'], flow=pub['flow'],
                      topology=pub['topology'], initial_state=state,
                      emitter={'type': 'verif_snap', 'ctx_key': key2}, display_info=False,
                      progress_bar=False, initial_global_time=eng.global_time)
        ctx2.engine = eng2
        out = {
            'procPaths': sorted(list(p) for p in eng2.process_paths) == sorted(list(p) for p in eng.process_paths),
            'stepPaths': _step_paths_of(eng2) == _step_paths_of(eng),
            'layers_rebuilt': _layers_of(eng2) or [],
            'layers_continued': _layers_of(eng) or [],
        }
        n0 = len(ctx.log)
        eng.update(3)
        eng2.update(3)
        a = [ev for ev in ctx.log[n0:] if ev['e'] in ('emit',)]
        b = [ev for ev in ctx2.log if ev['e'] in ('emit',)]   # (the initial row is emitted before ctx2.engine is set)
        out['rows_continued'] = [[ev['t'], ev['x']] for ev in a]
        out['rows_rebuilt'] = [[ev['t'], ev['x']] for ev in b]
        return out
    finally:
        probes.DYN_CTX.pop(key2, None)


# ------------------------------------------------------------------ reports for the model

def _spec_report(store, cell, spec, as_generate):
    base = [store, cell]
    procs = [[base + [p], False] for p in spec['procs']]
    steps = []
    for s, deps in spec['steps'].items():
        steps.append([base + [s], None if deps is None else [base + list(d) for d in deps]])
    for s, deps in (spec.get('inner_steps') or {}).items():
        steps.append([base + ['inner', s], [base + ['inner'] + list(d) for d in deps]])
    return procs, steps


def reports_for(case):
    """the reports Store.apply_update hands to the engine for each operation (absolute paths)"""
    shadow = {}        # cell -> (store, spec)
    init_p, init_s = [[['director'], False]], []
    for c in case['init']:
        p, s = _spec_report('agents', c['key'], c['spec'], True)
        init_p += p
        init_s += s
        shadow[c['key']] = ('agents', c['spec'])
    reports = []
    for op in case['ops']:
        if op['op'] == 'generate':
            p, s = _spec_report('agents', op['key'], op['spec'], True)
            reports.append({'procs': p, 'steps': s, 'deletions': []})
            shadow[op['key']] = ('agents', op['spec'])
        elif op['op'] == 'delete':
            reports.append({'procs': [], 'steps': [], 'deletions': [[op['store'], op['key']]]})
            shadow.pop(op['key'], None)
        elif op['op'] == 'delete_inner':
            reports.append({'procs': [], 'steps': [], 'deletions': [['agents', op['key'], 'inner']]})
        elif op['op'] == 'divide':
            P, S = [], []
            for d in op['daughters']:
                p, s = _spec_report('agents', d, op['spec'], False)
                P += p
                S += s
                shadow[d] = ('agents', op['spec'])
            reports.append({'procs': P, 'steps': S, 'deletions': [['agents', op['mother']]]})
            shadow.pop(op['mother'], None)
        elif op['op'] == 'move':
            store, spec = shadow[op['key']]
            p, s = _spec_report('agents2', op['key'], spec, False)
            reports.append({'procs': p, 'steps': s, 'deletions': [['agents', op['key']]]})
            shadow[op['key']] = ('agents2', spec)
    return {'procs': init_p, 'steps': init_s, 'deletions': []}, reports


def model_requests(case):
    init, reports = reports_for(case)
    return [{'op': 'book', 'init': init, 'reports': reports}]


def model_obs(case, ans):
    return ans[0]


def _after_op_snaps(case, impl):
    """the snapshot that first reflects operation k: the row emitted at time k+1 (the director's
    k-th update, issued at time k with timestep 1, is applied in the batch at k+1)"""
    by_t = {}
    for s in impl.get('snaps', []):
        by_t[s['t']] = s
    out = [by_t.get(0)]
    for k in range(len(case['ops'])):
        out.append(by_t.get(k + 1))
    return out


def compare(case, impl, model):
    if not isinstance(model, list):
        return f'model: {model}'
    if impl.get('raised'):
        if any(m == 'error' for m in model):
            return None
        if classify(case, 'engine-raised: ' + impl['raised']):
            return None       # a recorded finding (the oracle reports it); the model has no crash
        return f'engine raised {impl["raised"]}'
    snaps = _after_op_snaps(case, impl)
    for k, (s, m) in enumerate(zip(snaps, model)):
        if m == 'error':
            return f'model rejects operation {k - 1} but the engine ran on'
        if s is None:
            continue      # the run ended before that tick
        for field in ('procPaths', 'stepPaths'):
            if s[field] is not None and s[field] != sorted(m[field]):
                return f'{field} after operation {k - 1}: engine {s[field]} model {sorted(m[field])}'
        if s['layers'] is not None and s['layers'] != m['layers']:
            return f'layers after operation {k - 1}: engine {s["layers"]} model {m["layers"]}'
    return None


def oracle(case, impl):
    fails = []
    if 'harness_exception' in impl:
        return [f'probe-crashed: {impl["harness_exception"]}']
    if impl.get('timeout'):
        return ['hang: the run did not return']
    if impl.get('raised'):
        return [f'engine-raised: {impl["raised"]}']
    for s in impl.get('snaps', []):
        if s['procPaths'] != s['tree_procs']:
            fails.append(f'processes: at {s["t"]} the engine lists {s["procPaths"]}, the hierarchy holds {s["tree_procs"]}')
            break
        if s['stepPaths'] is not None and s['stepPaths'] != s['tree_steps']:
            fails.append(f'steps: at {s["t"]} the engine lists {s["stepPaths"]}, the hierarchy holds {s["tree_steps"]}')
            break
        layered = None if s['layers'] is None else sorted(p for l in s['layers'] for p in l)
        if layered is not None and layered != s['tree_steps']:
            fails.append(f'unscheduled: at {s["t"]} steps {s["tree_steps"]} exist, execution layers hold {layered}')
            break
        pub = s['published']
        if pub['processes'] != pub['store_processes'] or pub['steps'] != pub['store_steps']:
            fails.append(f'published: at {s["t"]} the published processes/steps {pub["processes"]}/{pub["steps"]} '
                         f'differ from the hierarchy {pub["store_processes"]}/{pub["store_steps"]}')
            break
        if pub['flow'] != pub['store_flow']:
            fails.append(f'published: at {s["t"]} the published flow {pub["flow"]} differs from the hierarchy\'s '
                         f'{pub["store_flow"]}')
            break
        if pub['topology_keys'] != pub['store_topology_keys']:
            fails.append(f'published: at {s["t"]} the published topology differs from the hierarchy')
            break
    # lifetimes from the script: a compartment name may be used again after its deletion
    lives = {}          # name -> list of [born, died or None]
    for c in case['init']:
        lives.setdefault(c['key'], []).append([0, None])
    for k, op in enumerate(case['ops']):
        t = k + 1
        if op['op'] == 'generate':
            lives.setdefault(op['key'], []).append([t, None])
        elif op['op'] == 'delete':
            if lives.get(op['key']):
                lives[op['key']][-1][1] = t
        elif op['op'] == 'divide':
            if lives.get(op['mother']):
                lives[op['mother']][-1][1] = t
            for d in op['daughters']:
                lives.setdefault(d, []).append([t, None])
    end = impl.get('gt', 0)

    def life_at(cell, gt):
        for b, d in lives.get(cell, []):
            if b <= gt and (d is None or gt < d or d > end):
                return b, d
        return None
    first = {}
    for ev in impl.get('log', []):
        if ev['e'] == 'invoke':
            cell = ev['id'].split('/')[0]
            if cell not in lives:
                continue
            lf = life_at(cell, ev['gt'])
            if lf is None:
                fails.append(f'deleted-invoked: {ev["id"]} invoked at {ev["gt"]}, outside every lifetime '
                             f'{lives[cell]} of its compartment')
                break
            if ev['id'] not in first:
                first[ev['id']] = True
                start = ev['start'] if ev.get('start') is not None else ev['gt']
                if lf[0] <= end and start != lf[0]:
                    fails.append(f'start: the first interval of {ev["id"]} starts at {start}, it was created at {lf[0]}')
                    break
    died = {c: l[-1][1] for c, l in lives.items() if l[-1][1] is not None and len(l) == 1}
    # steps: once per phase while alive (a step created in a phase first runs in the next)
    runs = {}
    for ev in impl.get('log', []):
        if ev['e'] == 'step':
            runs.setdefault((ev['id'], ev['t']), 0)
            runs[(ev['id'], ev['t'])] += 1
            if ev['ts'] != 0:
                fails.append(f'step-timestep: {ev["id"]} got timestep {ev["ts"]}')
    for (sid, t), n in runs.items():
        cell = sid.split('/')[0]
        # a phase at construction and one per batch; the moved compartments re-run under their new path
        if n > 1 and not (t == 0 and n == 1):
            fails.append(f'step-twice: {sid} ran {n} times in the phase at {t}')
            break
        if cell in died and t > died[cell]:
            fails.append(f'deleted-step-run: {sid} ran at {t}, deleted at {died[cell]}')
            break
    rb = impl.get('rebuild')
    if rb:
        if not rb['procPaths'] or not rb['stepPaths']:
            fails.append('rebuild: an engine built from the published composite lists other processes/steps')
        elif sorted(map(str, sum(rb['layers_rebuilt'], []))) != sorted(map(str, sum(rb['layers_continued'], []))):
            fails.append(f'rebuild: rebuilt engine schedules {rb["layers_rebuilt"]}, continued engine {rb["layers_continued"]}')
        elif rb['rows_rebuilt'] != rb['rows_continued']:
            fails.append(f'rebuild: continued {rb["rows_continued"]} vs rebuilt {rb["rows_rebuilt"]}')
    return fails[:4]


def nontrivial(case, impl):
    kinds = {op['op'] for op in case['ops']}
    slow = any(ts > 1 for c in case['init'] for ts in c['spec']['procs'].values()) or \
        any(ts > 1 for op in case['ops'] if 'spec' in op for ts in op['spec']['procs'].values())
    return len(case['ops']) >= 2 and len(kinds) >= 2 and slow


def _moves_in_flight(case):
    specs = {c['key']: c['spec'] for c in case['init']}
    for op in case['ops']:
        if op['op'] == 'generate':
            specs[op['key']] = op['spec']
        elif op['op'] == 'divide':
            for d in op['daughters']:
                specs[d] = op['spec']
        elif op['op'] == 'move' and any(ts > 1 for ts in specs.get(op['key'], {'procs': {}})['procs'].values()):
            return True
    return False


def classify(case, failure):
    if failure.startswith('engine-raised: RuntimeError: Trying to send command') and _moves_in_flight(case):
        return 'F19'
    # F10: a surviving step lost its place in the step graph because a step it depends on was deleted
    if any(op['op'] == 'delete_inner' for op in case['ops']) and (
            failure.startswith('unscheduled:') or failure.startswith('rebuild:') or
            failure.startswith('engine-raised: ValueError: Unknown dependency step')):
        return 'F10'
    return None


def stats(results):
    from collections import Counter
    c = Counter()
    for r in results:
        for op in r['case']['ops']:
            c[op['op']] += 1
        c['initial_cells=%d' % len(r['case']['init'])] += 1
        c['invocations'] += sum(1 for ev in (r['impl'].get('log', []) if isinstance(r['impl'], dict) else [])
                                if ev['e'] == 'invoke')
    return dict(c)


def _valid(case):
    """every operation refers to a compartment that exists where it says"""
    cells = {c['key']: 'agents' for c in case['init']}
    for op in case['ops']:
        if op['op'] == 'generate':
            if op['key'] in cells:
                return False
            cells[op['key']] = 'agents'
        elif op['op'] == 'delete':
            if cells.get(op['key']) != op['store']:
                return False
            del cells[op['key']]
        elif op['op'] == 'divide':
            if cells.get(op['mother']) != 'agents':
                return False
            del cells[op['mother']]
            for d in op['daughters']:
                cells[d] = 'agents'
        elif op['op'] in ('move', 'delete_inner'):
            if cells.get(op['key']) != 'agents':
                return False
            if op['op'] == 'move':
                cells[op['key']] = 'agents2'
    return True


def shrink(case):
    for i in range(len(case['ops'])):
        c = dict(case)
        c['ops'] = case['ops'][:i] + case['ops'][i + 1:]
        if _valid(c):
            yield c
    for i in range(len(case['calls'])):
        if len(case['calls']) > 1:
            c = dict(case)
            c['calls'] = [list(x) for x in case['calls'][:i] + case['calls'][i + 1:]]
            c['calls'][-1][1] = True      # the run must end at a quiescent point
            yield c


LEVEL_TEXT = ('Lean 4 theorems: for every history of structural reports the engine\'s process_paths/_step_paths are '
              'exactly the process/step nodes of the hierarchy (refinement, by induction over the history); nothing '
              'under a deleted path stays listed; additions keep every step scheduled; whatever the process set at a '
              'loop head, only listed processes are polled or invoked, new ones start at the current global time, '
              'survivors keep their fronts and the scheduler invariant (termination, monotone clock, exactly-once) '
              'survives; a path that is deleted and used again in one batch starts with a fresh front '
              '(reused_path_starts_fresh, after fix F40; replaced_path_starts_fresh, after fix F51). Deleting a step with surviving dependants unschedules them (known finding F10): the '
              'scheduling theorem is partial and the negation is proved on the witness. Tied to engine.py/store.py by '
              'replaying generated structural histories on a real Engine.')
LEVEL_NOTE = ('Trusted: Lean kernel + standard axioms; the reports fed to the bookkeeping model are derived by the '
              'harness from the operations (their production is C09\'s model); published composite = hierarchy and '
              'rebuild-continues-identically are checked by the oracle on the implementation, not proved. A _move is '
              'an addition plus a deletion in the model: the identity of a moved process instance with an update in '
              'flight (known finding F19) is outside the model and judged by the oracle.')
TECHNIQUE = 'Lean 4 refinement proof (bookkeeping ⊑ hierarchy) by induction over histories + replay correspondence'


# compartments with flow steps created through every route (constructor entries, `_generate` with a key, `_divide`
# with inherited processes/steps/flow): the steps must exist, run at their place in the flow, and the published
# composite must describe them (F34)
from harness import dynflow as _df                      # noqa: E402
from harness.mixins import add_family as _add_family    # noqa: E402
_add_family(globals(), _df, 'dynflow', _df.oracle, share=0.15)
from harness import deadwriter as _dw                   # noqa: E402
_add_family(globals(), _dw, 'deadwriter', _dw.oracle, share=0.08)


# parallel processes and steps generated at run time, then moved: the hierarchy holds what the engine runs
from harness import parstruct as _ps                    # noqa: E402
_add_family(globals(), _ps, 'parstruct', _ps.oracle, share=0.03)


# compartments moved by multi-segment sources: the hierarchy holds each of them once, where the engine runs it
import types as _types                                  # noqa: E402
from harness import movefar as _mf                      # noqa: E402
_mf10 = _types.SimpleNamespace(gen_case=_mf.gen_case, run_impl=_mf.run_impl,
                               corpus=lambda: [c for c in _mf.corpus() if not c.get('wider')])
_add_family(globals(), _mf10, 'movefar', _mf.oracle, share=0.03)
