"""C16 — composites embed, merge and load the same way through every entry point.

A case is a *scenario*: a table of probe processes, a few composites (built with
`Composite(config)`, a `Composer` generating at a path, or a `MetaComposer`), a sequence of
`merge` operations between them (templates merged several times, loose parts, paths, schema
overrides) and, optionally, one composite loaded into `Engine` through each of the three
`_make_store` branches and run.

Correspondence: every composite's five dictionaries after every operation, the processes'
schema overrides, the sharing structure of the dict objects (`id()`), and the store / processes /
steps / flow / topology each entry point leaves on the engine — vs `VivModel/Composite.lean`
(values) and `VivModel/Heap.lean` (objects).
Oracle (implementation only): merged-in composites deep-equal before/after and no dict object
shared between composites; union semantics recomputed independently; the three entry points give
the same tuple and the same emitted trajectory; a composite generated at a path runs like the one
generated at the root, under the prefix; overrides change exactly the named process."""
import copy
import json

from harness.val import sort_enc, exc_name

PROP = 'C16'
LEAN_TARGETS = ['VivProps.C16']
DRIVER = 'Composite'
REQUIRED_THEOREMS = [
    'embed', 'merge_union', 'deepMerge_lookup', 'merge_leaves_source_unchanged',
    'no_alias', 'later_merges_leave_others_unchanged', 'entry_composite_eq_parts',
    'entry_store_steps_only', 'merge_writes_only_target_region',
    'override_frame', 'override_reaches',
]
ANCHORS = [
    ('vivarium/core/composer.py', ['Composite.__init__', 'Composite.merge', 'Composite.generate_store',
                                   'Composite.initial_state', 'Composer.generate',
                                   'get_composite_from_store', 'MetaComposer._generate',
                                   '_get_composite_state', '_get_composite_state_recur']),
    ('vivarium/library/datum.py', ['Datum.__init__']),
    ('vivarium/library/dict_utils.py', ['deep_merge', 'deep_merge_check', 'deep_copy_internal']),
    ('vivarium/core/process.py', ['assoc_in', '_override_schemas', 'Process.merge_overrides',
                                  'Process.get_schema', 'Process.generate']),
    ('vivarium/core/engine.py', ['Engine._make_store', 'Engine._parallelize_processes']),
    ('vivarium/core/store.py', ['generate_state', 'Store.generate', 'Store._generate_paths',
                                'Store.get_processes', 'Store.get_steps', 'Store.get_flow',
                                'Store.get_topology', 'Store.set_value', 'Store.apply_defaults']),
]
BUDGET = {'quick': 600, 'thorough': 6000}
RULE = ('cases: scenarios of 1-5 probe processes/steps in 1-3 composites (Composite(config) / '
        'Composer.generate at a path / MetaComposer), 0-5 merge operations (other composite or none, '
        'loose parts — new dictionaries or another composite\'s own part dictionaries —, path, schema '
        'override; one template merged several times), then one '
        'composite loaded through the three Engine entry points and run for 3 ticks, and the '
        'composer-built composite generated at root and at a path. ~12% malformed scenarios '
        '(process/step key clashes, overrides naming nothing, missing topology, overlapping '
        'MetaComposer keys, non-process leaves). Non-trivial: at least one merge with a '
        'non-empty other composite or loose part and an engine run. Distinct by canonical JSON.')
TRUSTED = ['CPython dict/`id()` semantics (modelled as a heap of dict objects, not verified)',
           'the probe Process/Step/Composer classes of this module']
ASSUMPTIONS = [
    'probe processes have flat port schemas {port: {variable: {_default, _emit}}} and tuple topologies '
    '(no dict-valued topology, no glob ports, no variable path through a process node)',
    'Engine(composite=c, initial_state=x) is not combined with a non-empty c.state (F21)',
]
CASE_TIMEOUT = 30.0
DRIFT_FACTOR = 2
PARTS = ['processes', 'topology', 'steps', 'flow', 'state']
RUN_TICKS = 3

try:   # warm the import cache before the runner forks its workers (the first case of a worker
    # would otherwise pay for importing vivarium inside its watchdog window); failures surface
    # later, inside run_impl, as observations
    import vivarium.core.engine  # noqa: F401
    import vivarium.core.composer  # noqa: F401
except Exception:  # noqa
    pass


# ------------------------------------------------------------------ encoding (process leaves = pid)

def encp(v):
    from vivarium.core.process import Process
    if isinstance(v, Process):
        return getattr(v, 'pid', v.name)
    if v is None or isinstance(v, (bool, str, int)):
        return v
    if isinstance(v, float) and v == int(v):
        return int(v)
    if isinstance(v, (list, tuple)):
        return {'l': [encp(x) for x in v]}
    if isinstance(v, dict):
        return {'d': [[k if isinstance(k, str) else repr(k), encp(x)] for k, x in v.items()]}
    return {'opaque': type(v).__name__}


def decp(j, procs):
    """decode a part tree; strings that are pids become the process objects; lists become tuples
    except directly under a flow dictionary (flow values are lists of tuples)"""
    if isinstance(j, str) and j in procs:
        return procs[j]
    if j is None or isinstance(j, (bool, str, int)):
        return j
    if 'l' in j:
        return tuple(decp(x, procs) for x in j['l'])
    if 'd' in j:
        return {k: decp(x, procs) for k, x in j['d']}
    raise ValueError(j)


def dec_flow(j):
    if isinstance(j, dict) and 'd' in j:
        return {k: dec_flow(x) for k, x in j['d']}
    if isinstance(j, dict) and 'l' in j:
        return [tuple(d['l']) if isinstance(d, dict) and 'l' in d else d for d in j['l']]
    return j


def D(pairs=()):
    return {'d': [list(p) for p in pairs]}


def is_d(j):
    return isinstance(j, dict) and 'd' in j


def pyd(j):
    """encoded tree -> plain nested python dict (leaves kept encoded), for the union oracle"""
    if is_d(j):
        return {k: pyd(v) for k, v in j['d']}
    return json.dumps(j, sort_keys=True)


# ------------------------------------------------------------------ generators

GROUPS = ['g0', 'g1', 'g2']
VSTORES = ['v0', 'v1', 'v2']
MPATHS = [[], [], ['m0'], ['m1'], ['m0', 'n0'], ['m2', 'n1'], ['g0'], ['m0']]


class Gen:
    def __init__(self, rng):
        self.rng = rng
        self.procs = []          # [pid, info]
        self.np = 0
        self.ns = 0
        self.overridden = set()   # each process object is named by at most one override (CF-C)

    def new_proc(self, step):
        rng = self.rng
        if step:
            pid = f'S{self.ns}'
            self.ns += 1
        else:
            pid = f'P{self.np}'
            self.np += 1
        ports = []
        for port in rng.sample(['a', 'b'], rng.choice([1, 1, 2])):
            vs = []
            for var in rng.sample(['x', 'y'], rng.choice([1, 1, 2])):
                vs.append([var, D([['_default', rng.choice([0, 0, 1, 2, 5])], ['_emit', True]])])
            ports.append([port, D(vs)])
        info = [['step', step], ['ports', D(ports)], ['inc', rng.choice([1, 2, 3])]]
        if rng.random() < 0.1:
            self.overridden.add(pid)
            p0 = ports[0]
            info.append(['schema', D([[p0[0], D([[p0[1]['d'][0][0], D([['_default', 9]])]])]])])
        self.procs.append([pid, D(info)])
        return pid, [p[0] for p in ports]

    def unit(self, n=None, allow_steps=True, keyset=None):
        """parts of a small composite: processes/steps at keys, nested in 0-1 group"""
        rng = self.rng
        n = n or rng.choice([1, 1, 2, 2, 3])
        nest = rng.choice([[], [], [rng.choice(GROUPS)], [rng.choice(GROUPS)]])
        processes, steps, topology, flow = [], [], [], []
        step_keys = []
        used = set()
        for i in range(n):
            step = allow_steps and rng.random() < 0.35
            pid, ports = self.new_proc(step)
            pool = [k for k in (keyset or ['k0', 'k1', 'k2', 'k3', 'k4']) if k not in used]
            key = rng.choice(pool)
            used.add(key)
            topo = []
            for port in ports:
                r = rng.random()
                if r < 0.15:
                    continue        # port left to its default path (port,)
                path = [rng.choice(VSTORES)]
                if rng.random() < 0.3:
                    path.append(rng.choice(['w0', 'w1']))
                if nest and rng.random() < 0.25:
                    path = ['..'] + path
                topo.append([port, {'l': path}])
            if not topo:
                topo.append([ports[0], {'l': [rng.choice(VSTORES)]}])
            topology.append([key, D(topo)])
            if step:
                steps.append([key, pid])
                r = rng.random()
                if r < 0.75:
                    deps = []
                    if step_keys and rng.random() < 0.6:
                        deps = [{'l': [rng.choice(step_keys)]}]
                    flow.append([key, {'l': deps}])
                step_keys.append(key)
            else:
                processes.append([key, pid])

        def wrap(items):
            out = D(items)
            for g in reversed(nest):
                out = D([[g, out]]) if items else D()
            return out
        return {'processes': wrap(processes), 'steps': wrap(steps), 'flow': wrap(flow),
                'topology': wrap(topology)}

    def state_for(self, parts):
        """a partial initial state naming some variable stores"""
        rng = self.rng
        st = []
        for v in rng.sample(VSTORES, rng.choice([0, 1, 2])):
            st.append([v, D([[rng.choice(['x', 'y']), rng.choice([0, 3, 7])]])])
        return D(st)


def first_proc_path(tree, prefix=()):
    for k, v in tree['d']:
        if is_d(v):
            r = first_proc_path(v, prefix + (k,))
            if r:
                return r
        elif isinstance(v, str):
            return list(prefix + (k,)), v
    return None


def all_proc_paths(tree, prefix=()):
    out = []
    for k, v in tree['d']:
        if is_d(v):
            out.extend(all_proc_paths(v, prefix + (k,)))
        elif isinstance(v, str):
            out.append((list(prefix + (k,)), v))
    return out


def nest_tree(path, leaf):
    for k in reversed(path):
        leaf = D([[k, leaf]])
    return leaf


def gen_scenario(rng, malformed=False):
    g = Gen(rng)
    comps = []
    ncomps = rng.choice([1, 2, 2, 3])
    for i in range(ncomps):
        r = rng.random()
        parts = g.unit()
        if r < 0.4:
            c = dict(kind='config', **parts)
            if rng.random() < 0.3:
                c['state'] = g.state_for(parts)
        elif r < 0.85:
            c = dict(kind='composer', path=rng.choice(MPATHS), **parts)
            if rng.random() < 0.3:
                fp = first_proc_path(parts['processes']) or first_proc_path(parts['steps'])
                if fp and fp[1] not in g.overridden:
                    g.overridden.add(fp[1])
                    c['schema'] = override_for(g, rng, fp[0], fp[1])
        else:
            a = g.unit(n=1, keyset=['k0', 'k1'])
            b = g.unit(n=1, keyset=['k2', 'k3'])
            # MetaComposer combines top-level keys: give the two members different groups
            c = dict(kind='meta', members=[a, b], path=rng.choice(MPATHS))
            if top_keys_overlap(a, b) and not malformed:
                c = dict(kind='composer', path=rng.choice(MPATHS), **a)
        comps.append(c)
    ops = []
    nops = rng.choice([0, 1, 2, 2, 3, 3, 4, 5])
    target = rng.randrange(ncomps)
    used_paths = []
    for _ in range(nops):
        op = {'target': target if rng.random() < 0.8 else rng.randrange(ncomps), 'other': None,
              'path': []}
        r = rng.random()
        if r < 0.6 and ncomps > 1:
            others = [i for i in range(ncomps) if i != op['target']]
            op['other'] = others[0] if rng.random() < 0.6 else rng.choice(others)
        elif r < 0.65:
            op['other'] = op['target']          # merge a composite into itself
        if rng.random() < 0.45 or op['other'] is None:
            loose = g.unit(n=rng.choice([1, 1, 2]))
            for k in ('processes', 'topology', 'steps', 'flow'):
                if loose[k]['d']:
                    op[k] = loose[k]
            if rng.random() < 0.3:
                op['state'] = g.state_for(loose)
        if rng.random() < 0.2:
            # loose parts that ARE another composite's part dictionaries (B.merge(processes=A.processes,
            # topology=A.topology, ...)): repaired by 54c1ca0, judged by the oracle like any merge
            src = rng.randrange(ncomps)
            # consistent sets only: a topology/flow entry without its process is not a well-formed
            # composite (get_topology()/get_flow() of the store cannot give it back)
            for k in rng.choice([PARTS, PARTS, ['processes', 'topology', 'steps', 'flow'], ['state']]):
                op.pop(k, None)
                op[k + '_from'] = src
        # paths: mostly new ones, so that merged-in keys do not clash; sometimes the same again
        fresh = [p for p in MPATHS if p not in used_paths]
        op['path'] = rng.choice(fresh) if fresh and rng.random() < 0.8 else rng.choice(MPATHS)
        used_paths.append(op['path'])
        ops.append(op)
    sc = {'kind': 'scenario', 'procs': D(g.procs), 'comps': comps, 'ops': ops,
          'engine': {'comp': target}}
    # overrides need to name a process of the *target after the merge*: simulate with the oracle union
    add_overrides(sc, g, rng)
    if rng.random() < 0.35:
        sc['engine']['initial_state'] = g.state_for(None)
    if malformed:
        break_scenario(sc, g, rng)
    sc['procs'] = D(g.procs)
    return sc


def top_keys_overlap(a, b):
    for k in ('processes', 'steps', 'flow', 'topology'):
        if {x[0] for x in a[k]['d']} & {x[0] for x in b[k]['d']}:
            return True
    return False


def override_for(g, rng, path, pid):
    info = dict(next(i for p, i in g.procs if p == pid)['d'])
    ports = info['ports']['d']
    port, vs = rng.choice(ports)
    var = rng.choice(vs['d'])[0]
    if rng.random() < 0.2:
        var = 'znew'
    leaf = D([[port, D([[var, D([['_default', rng.choice([0, 4, 8])], ['_emit', True]])]])]])
    return nest_tree(path, leaf)


def expected_parts(sc):
    """the union semantics, computed on encoded trees (used by generators to aim overrides and by
    the oracle; independent of the repo's code and of the Lean model)"""
    comps = []
    for c in sc['comps']:
        if c['kind'] == 'meta':
            parts = {}
            for k in ('processes', 'steps', 'flow', 'topology'):
                parts[k] = {}
                for m in c['members']:
                    parts[k].update(pyd(m.get(k, D())))
        else:
            parts = {k: pyd(c.get(k, D())) for k in ('processes', 'steps', 'flow', 'topology')}
        path = c.get('path', [])
        out = {k: nest_py(path, v) for k, v in parts.items()}
        out['state'] = pyd(c.get('state', D())) if c['kind'] == 'config' else {}
        comps.append(out)
    history = [copy.deepcopy(comps)]
    for op in sc['ops']:
        t = comps[op['target']]
        o = comps[op['other']] if op.get('other') is not None else {k: {} for k in PARTS}
        o = copy.deepcopy(o)
        for k in PARTS:
            if op.get(k + '_from') is not None:
                loose_k = copy.deepcopy(comps[op[k + '_from']][k])
            else:
                loose_k = pyd(op.get(k) or D())
            m = union(o[k], loose_k)
            t[k] = union(t[k], nest_py(op.get('path', []), m))
        history.append(copy.deepcopy(comps))
    return history


def union(a, b):
    out = dict(a)
    for k, v in b.items():
        if k in out and isinstance(out[k], dict) and isinstance(v, dict):
            out[k] = union(out[k], v)
        else:
            out[k] = copy.deepcopy(v)
    return out


def nest_py(path, v):
    for k in reversed(path):
        v = {k: v}
    return v


def py_proc_paths(tree, prefix=()):
    out = []
    for k, v in tree.items():
        if isinstance(v, dict):
            out.extend(py_proc_paths(v, prefix + (k,)))
        else:
            out.append((list(prefix + (k,)), json.loads(v)))
    return out


def _occupant(parts, path):
    """pid sitting at `path` in processes or steps of an expected-parts record (None if absent)"""
    for part in ('processes', 'steps'):
        node = parts[part]
        for k in path:
            node = node.get(k) if isinstance(node, dict) else None
        if node is not None and not isinstance(node, dict):
            return json.loads(node)
    return None


def add_overrides(sc, g, rng):
    hist = expected_parts(sc)
    for i, op in enumerate(sc['ops']):
        if rng.random() < 0.3:
            after = hist[i + 1][op['target']]
            cands = [(p, pid) for p, pid in py_proc_paths(after['processes']) + py_proc_paths(after['steps'])
                     if isinstance(pid, str) and pid not in g.overridden
                     and all(_occupant(hist[j][op['target']], p) == pid for j in range(i + 1, len(hist)))]
            # (CF-C) the key must keep its occupant: merge re-applies the accumulated `_schema`, and
            # the same override dictionary applied to two process objects makes them share it
            # a process object sitting at several paths (template merged twice) is named once
            if cands:
                p, pid = rng.choice(cands)
                g.overridden.add(pid)
                op['schema'] = override_for(g, rng, p, pid)


def break_scenario(sc, g, rng):
    """one malformation"""
    r = rng.random()
    ops = sc['ops']
    if r < 0.2 and ops:
        # an override naming nothing
        rng.choice(ops)['schema'] = D([['nokey', D([['a', D()]])]])
    elif r < 0.4:
        # the same key as process and as step
        c = sc['comps'][0]
        if c['kind'] != 'meta':
            pid, _ = g.new_proc(True)
            fp = first_proc_path(c['processes'])
            if fp:
                c['steps'] = nest_tree(fp[0], pid)
    elif r < 0.55:
        # topology missing for a process
        c = sc['comps'][rng.randrange(len(sc['comps']))]
        if c['kind'] != 'meta':
            c['topology'] = D()
    elif r < 0.7:
        # non-process leaf
        c = sc['comps'][0]
        if c['kind'] != 'meta':
            c['processes'] = D(c['processes']['d'] + [['bad', 3]])
    elif r < 0.85:
        a = g.unit(n=1, keyset=['k0'])
        b = g.unit(n=1, keyset=['k0'])
        sc['comps'][0] = dict(kind='meta', members=[a, b], path=[])
    else:
        # flow entry for a non-step with dependencies
        c = sc['comps'][0]
        if c['kind'] != 'meta':
            fp = first_proc_path(c['processes'])
            if fp:
                c['flow'] = nest_tree(fp[0], {'l': [{'l': ['k9']}]})


def generate(rng, n, tier):
    cases = []
    for i in range(n):
        cases.append(gen_scenario(rng, malformed=rng.random() < 0.12))
    return cases


def corpus():
    P = lambda step, dflt=1: D([['step', step], ['ports', D([['a', D([['x', D([['_default', dflt], ['_emit', True]])]])]])], ['inc', 1]])
    topo = lambda key, store: D([[key, D([['a', {'l': [store]}]])]])
    # F15 (pre-fix witness): B.merge(A); B.merge(more) must leave A alone; template merged twice
    f15 = {'kind': 'scenario',
           'procs': D([['P0', P(False)], ['P1', P(False)], ['P2', P(False)]]),
           'comps': [
               {'kind': 'config', 'processes': D([['g0', D([['k0', 'P0']])]]), 'topology': D([['g0', topo('k0', 'v0')]])},
               {'kind': 'config', 'processes': D([['k1', 'P1']]), 'topology': topo('k1', 'v1')}],
           'ops': [
               {'target': 1, 'other': 0, 'path': []},
               {'target': 1, 'other': None, 'path': [], 'processes': D([['g0', D([['k2', 'P2']])]]),
                'topology': D([['g0', topo('k2', 'v0')]])},
               {'target': 1, 'other': 0, 'path': ['m0']},
               {'target': 1, 'other': None, 'path': ['m0'], 'processes': D([['g0', D([['k2', 'P2']])]]),
                'topology': D([['g0', topo('k2', 'v0')]])}],
           'engine': {'comp': 1}}
    # embedding + steps + flow + override + three entry points
    emb = {'kind': 'scenario',
           'procs': D([['P0', P(False, 2)], ['S0', P(True)], ['S1', P(True)]]),
           'comps': [{'kind': 'composer', 'path': ['m0', 'n0'],
                      'processes': D([['k0', 'P0']]), 'steps': D([['k1', 'S0'], ['k2', 'S1']]),
                      'flow': D([['k1', {'l': []}], ['k2', {'l': [{'l': ['k1']}]}]]),
                      'topology': D([['k0', D([['a', {'l': ['v0']}]])], ['k1', D([['a', {'l': ['v0']}]])],
                                     ['k2', D([['a', {'l': ['v1', 'w0']}]])]]),
                      'schema': D([['k0', D([['a', D([['x', D([['_default', 8]])]])]])]])}],
           'ops': [{'target': 0, 'other': None, 'path': [], 'state': D([['m0', D([['n0', D([['v0', D([['x', 3]])]])]])]])}],
           'engine': {'comp': 0}}
    # later entries win on equal keys; merge into itself
    win = {'kind': 'scenario',
           'procs': D([['P0', P(False)], ['P1', P(False, 5)]]),
           'comps': [{'kind': 'config', 'processes': D([['k0', 'P0']]), 'topology': topo('k0', 'v0'),
                      'state': D([['v0', D([['x', 0]])]])}],
           'ops': [{'target': 0, 'other': None, 'path': [], 'processes': D([['k0', 'P1']]),
                    'topology': topo('k0', 'v1')},
                   {'target': 0, 'other': 0, 'path': ['m1']}],
           'engine': {'comp': 0}}
    # error branches: key both process and step; override naming nothing
    bad = {'kind': 'scenario',
           'procs': D([['P0', P(False)], ['S0', P(True)]]),
           'comps': [{'kind': 'config', 'processes': D([['k0', 'P0']]), 'topology': topo('k0', 'v0')}],
           'ops': [{'target': 0, 'other': None, 'path': [], 'steps': D([['k0', 'S0']])},
                   {'target': 0, 'other': None, 'path': [], 'schema': D([['zz', D()]])}],
           'engine': None}
    # CF-A (pre-fix witness of 54c1ca0): loose parts that are A's own dictionaries, then more into B
    cfa = {'kind': 'scenario',
           'procs': D([['P0', P(False)], ['P1', P(False)]]),
           'comps': [
               {'kind': 'config', 'processes': D([['g0', D([['k0', 'P0']])]]), 'topology': D([['g0', topo('k0', 'v0')]])},
               {'kind': 'config'}],
           'ops': [
               {'target': 1, 'other': None, 'path': [], 'processes_from': 0, 'topology_from': 0},
               {'target': 1, 'other': None, 'path': [], 'processes': D([['g0', D([['k1', 'P1']])]]),
                'topology': D([['g0', topo('k1', 'v0')]])}],
           'engine': {'comp': 1}}
    # CF-B (pre-fix witness of 6deaef3): a steps-only composite through the three entry points
    cfb = {'kind': 'scenario',
           'procs': D([['S0', P(True)], ['S1', P(True, 3)]]),
           'comps': [{'kind': 'config', 'steps': D([['k0', 'S0'], ['k1', 'S1']]),
                      'flow': D([['k0', {'l': []}], ['k1', {'l': [{'l': ['k0']}]}]]),
                      'topology': D([['k0', D([['a', {'l': ['v0']}]])], ['k1', D([['a', {'l': ['v0']}]])]])}],
           'ops': [],
           'engine': {'comp': 0, 'initial_state': D([['v0', D([['x', 7]])]])}}
    return [f15, emb, win, bad, cfa, cfb]


# ------------------------------------------------------------------ implementation side

_CLASSES = {}


def _classes():
    if _CLASSES:
        return _CLASSES
    from vivarium.core.process import Process, Step
    from vivarium.core.composer import Composer

    def _schema(self):
        return {port: {v: dict(cfg) for v, cfg in vs.items()}
                for port, vs in self.parameters['ports'].items()}

    def _update(self, timestep, states):
        return {port: {v: self.parameters['inc'] for v in vs if not v.startswith('_')}
                for port, vs in self.parameters['ports'].items()}

    class ProbeProcess(Process):
        defaults = {'ports': {}, 'inc': 1}
        ports_schema = _schema
        next_update = _update

    class ProbeStep(Step):
        defaults = {'ports': {}, 'inc': 1}
        ports_schema = _schema
        next_update = _update

    class ProbeComposer(Composer):
        defaults = {}

        def __init__(self, parts, config=None):
            super().__init__(config)
            self.parts = parts

        def generate_processes(self, config):
            return _fresh(self.parts['processes'])

        def generate_steps(self, config):
            return _fresh(self.parts['steps'])

        def generate_flow(self, config):
            return _fresh(self.parts['flow'])

        def generate_topology(self, config):
            return _fresh(self.parts['topology'])

    _CLASSES.update(P=ProbeProcess, S=ProbeStep, C=ProbeComposer)
    return _CLASSES


def _fresh(d):
    """new dictionaries, same leaves (what a composer's generate_* method normally returns)"""
    if isinstance(d, dict):
        return {k: _fresh(v) for k, v in d.items()}
    return d


def _plain(j):
    if is_d(j):
        return {k: _plain(v) for k, v in j['d']}
    if isinstance(j, dict) and 'l' in j:
        return [_plain(x) for x in j['l']]
    return j


def build_procs(table):
    cl = _classes()
    out = {}
    for pid, info in table['d']:
        info = dict(info['d'])
        params = {'name': pid, 'ports': _plain(info['ports']), 'inc': info.get('inc', 1)}
        if 'schema' in info:
            params['_schema'] = _plain(info['schema'])
        p = (cl['S'] if info['step'] else cl['P'])(params)
        p.pid = pid
        out[pid] = p
    return out


def dec_parts(c, procs):
    return {
        'processes': decp(c.get('processes') or D(), procs),
        'steps': decp(c.get('steps') or D(), procs),
        'flow': dec_flow(c.get('flow') or D()),
        'topology': decp(c.get('topology') or D(), {}),
    }


def snap(c):
    # `_schema` (the accumulated override dictionary) is not compared: its inner dictionaries end
    # up shared with the process objects' `_schema_override` (candidate finding CF-C in the notes)
    return {k: encp(c[k]) for k in PARTS}


def ov_snapshot(procs):
    return {pid: encp(p.schema_override) for pid, p in procs.items()}


def dict_ids(comps):
    """[(comp, part, path) -> id] for every dict object reachable from the composites"""
    out = []

    def rec(ci, pi, path, d):
        out.append(((ci, pi, tuple(path)), id(d)))
        for k, v in d.items():
            if isinstance(v, dict):
                rec(ci, pi, path + [k], v)
    for ci, c in enumerate(comps):
        for pi, part in enumerate(PARTS):
            rec(ci, pi, [], c[part])
    return out


def canon_alias(pairs):
    """sharing structure: each node -> first node (in sorted order) with the same identity"""
    pairs = sorted(pairs, key=lambda x: x[0])
    first = {}
    out = []
    for node, ident in pairs:
        first.setdefault(ident, node)
        out.append([list(node[:2]) + [list(node[2])], list(first[ident][:2]) + [list(first[ident][2])]])
    return out


def shared_between_composites(pairs):
    seen = {}
    for (ci, pi, path), ident in pairs:
        if ident in seen and seen[ident][0] != ci:
            return (seen[ident], (ci, pi, path))
        seen.setdefault(ident, (ci, pi, path))
    return None


def create(c, procs):
    from vivarium.core.composer import Composite, MetaComposer
    cl = _classes()
    kind = c['kind']
    if kind == 'config':
        cfg = dec_parts(c, procs)
        cfg['state'] = decp(c.get('state') or D(), {})
        if c.get('schema'):
            cfg['_schema'] = _plain(c['schema'])
        return Composite(cfg)
    if kind == 'composer':
        config = {'_schema': _plain(c['schema'])} if c.get('schema') else {}
        comp = cl['C'](dec_parts(c, procs), config)
        return comp.generate(path=tuple(c['path']))
    if kind == 'meta':
        members = [cl['C'](dec_parts(m, procs), {}) for m in c['members']]
        config = {'_schema': _plain(c['schema'])} if c.get('schema') else {}
        return MetaComposer(members, config).generate(path=tuple(c['path']))
    raise ValueError(kind)


def store_dump(node):
    from vivarium.core.process import Process
    if node.inner:
        return {'d': [[k, store_dump(ch)] for k, ch in node.inner.items()]}
    if isinstance(node.value, Process):
        return {'l': ['proc', getattr(node.value, 'pid', node.value.name), encp(node.topology),
                      encp(node.flow)]}
    return {'l': ['var', encp(node.value)]}


def engine_tuple(e):
    def opt(v):
        return {'pynone': None} if v is None else encp(v)
    return {'tree': store_dump(e.state), 'processes': opt(e.processes), 'steps': encp(e.steps),
            'flow': encp(e.flow), 'topology': opt(e.topology)}


def make_store_only(**kw):
    """exactly `Engine._make_store` (the three branches), without the rest of `Engine.__init__`
    (which already runs the steps once and so changes the state)"""
    from vivarium.core.engine import Engine
    e = Engine.__new__(Engine)
    e.profiler = None
    e.stats_objs = []
    e.initial_state = kw.get('initial_state') or {}
    e._make_store(kw.get('store'), kw.get('composite'), kw.get('processes'), kw.get('steps'),
                  kw.get('flow'), kw.get('topology'))
    return e


def run_engine(make_kwargs):
    """what `_make_store` leaves on the engine, then a full engine built the same way and run"""
    from vivarium.core.engine import Engine
    try:
        tup = {'ok': engine_tuple(make_store_only(**make_kwargs()))}
    except Exception as ex:  # noqa
        tup = {'err': exc_name(ex)}
    e = None
    try:
        e = Engine(display_info=False, emitter='timeseries', **make_kwargs())
        e.update(RUN_TICKS)
        data = e.emitter.get_data()
        traj = {'ok': encp({str(t): v for t, v in data.items()})}
    except Exception as ex:  # noqa
        traj = {'err': exc_name(ex)}
    finally:
        try:
            if e is not None:
                e.end()
        except Exception:
            pass
    return tup, traj


def prune(j):
    """forget empty branches (they hold no process) and dict order"""
    if is_d(j):
        kids = [[k, prune(v)] for k, v in j['d']]
        kids = [kv for kv in kids if not (is_d(kv[1]) and not kv[1]['d'])]
        return {'d': sorted(kids, key=lambda kv: kv[0])}
    return j


def run_impl(case):
    from vivarium.core.engine import Engine
    from vivarium.core.composer import Composite
    fails = []
    procs = build_procs(case['procs'])
    obs = {'created': [], 'steps': []}
    comps = []
    for c in case['comps']:
        try:
            comps.append(create(c, procs))
            obs['created'].append(snap(comps[-1]))
        except Exception as ex:  # noqa
            obs['create_err'] = exc_name(ex)
            return {'obs': obs, 'fails': fails}
    obs['ov0'] = ov_snapshot(procs)
    obs['alias0'] = canon_alias(dict_ids(comps))
    sh = shared_between_composites(dict_ids(comps))
    if sh:
        fails.append(f'alias: freshly built composites share a dict object: {sh}')
    expected = expected_parts(case)
    for i, (c, exp) in enumerate(zip(comps, expected[0])):
        got = {k: pyd(encp(c[k])) for k in PARTS}
        if got != exp:
            fails.append(f'embed: composite {i} built by {case["comps"][i]["kind"]} at path '
                         f'{case["comps"][i].get("path")} does not hold its parts under the path')
    for oi, op in enumerate(case['ops']):
        before = [copy.deepcopy({k: encp(c[k]) for k in PARTS}) for c in comps]
        ov_before = ov_snapshot(procs)
        tgt = comps[op['target']]
        kwargs = {}
        loose_dicts = {}
        for k in PARTS:
            if op.get(k + '_from') is not None:
                kwargs[k] = comps[op[k + '_from']][k]
            elif op.get(k) is not None:
                kwargs[k] = dec_flow(op[k]) if k == 'flow' else decp(op[k], procs if k in ('processes', 'steps') else {})
                loose_dicts[k] = copy.deepcopy(encp(kwargs[k]))
        other = comps[op['other']] if op.get('other') is not None else None
        err = None
        try:
            tgt.merge(composite=other, path=tuple(op.get('path', [])),
                      schema_override=_plain(op['schema']) if op.get('schema') else None, **kwargs)
        except Exception as ex:  # noqa
            err = exc_name(ex)
        ids = dict_ids(comps)
        obs['steps'].append({'err': err, 'snaps': [snap(c) for c in comps], 'ov': ov_snapshot(procs),
                             'alias': canon_alias(ids)})
        # ---- oracle (i): everything but the target is as before, and no dict object is shared
        for ci, c in enumerate(comps):
            if ci == op['target']:
                continue
            now = {k: encp(c[k]) for k in PARTS}
            if sort_enc(now) != sort_enc(before[ci]):
                fails.append(f'source-changed: merge #{oi} into composite {op["target"]} changed composite {ci}')
        sh = shared_between_composites(ids)
        if sh:
            fails.append(f'alias: after merge #{oi} composites share a dict object: {sh[0]} and {sh[1]}')
        for k, enc_before in loose_dicts.items():
            if sort_enc(encp(kwargs[k])) != sort_enc(enc_before):
                fails.append(f'loose-changed: merge #{oi} changed the loose {k} it was given')
        # ---- oracle (ii): union semantics
        exp = expected[oi + 1]
        for ci, c in enumerate(comps):
            got = {k: pyd(encp(c[k])) for k in PARTS}
            if got != exp[ci]:
                bad = [k for k in PARTS if got[k] != exp[ci][k]]
                fails.append(f'union: after merge #{oi} composite {ci} {bad} is not the right-biased deep '
                             f'union under path {op.get("path")}')
                break
        # ---- oracle (v): overrides reach exactly the named processes
        if err is None:
            ov_after = ov_snapshot(procs)
            named = {}
            if op.get('schema'):
                pas = union(pyd(encp(tgt['processes'])), pyd(encp(tgt['steps'])))
                _named(pyd_keep(_plain(op['schema'])), pas, named)
            # the whole accumulated `_schema` of the target is applied again on every merge
            for pid in procs:
                if pid in named:
                    want = union(pyd(ov_before[pid]), pyd(enc_plain(named[pid])))
                    if pyd(ov_after[pid]) != want:
                        # earlier overrides in target._schema may be re-applied: allowed if idempotent
                        fails.append(f'override: process {pid} named by the override of merge #{oi} has '
                                     f'schema_override {ov_after[pid]}')
                elif sort_enc(ov_after[pid]) != sort_enc(ov_before[pid]) and not _reapplied(tgt, procs, pid):
                    fails.append(f'override: merge #{oi} changed the schema override of process {pid}, '
                                 f'which it does not name')
    # ---- engine entry points
    eng = case.get('engine')
    if eng and comps:
        c = comps[eng['comp']]
        has_state = bool(c['state'])
        # F21: a composite carrying a state makes Engine ignore `initial_state`; never combined
        init = {} if has_state else decp(eng.get('initial_state') or D(), {})
        e_obs = {}
        trajs = {}
        parts_before = {k: encp(c[k]) for k in PARTS}

        def via_composite():
            if has_state or not init:
                return dict(composite=c)
            return dict(composite=c, initial_state=copy.deepcopy(init))

        def via_parts():
            return dict(processes=c['processes'], steps=c['steps'], flow=c['flow'],
                        topology=c['topology'],
                        initial_state=copy.deepcopy(c['state'] if has_state else init))

        def via_store():
            store = c.generate_store()
            e_obs.setdefault('generated', {'ok': store_dump(store)})
            return dict(store=store, initial_state=copy.deepcopy(init))
        # the store entry point first: it must see the composite before entry (a) rewrites it
        try:
            e_obs['store'], trajs['store'] = run_engine(via_store)
        except Exception as ex:  # noqa
            e_obs['store'], trajs['store'] = {'err': exc_name(ex)}, None
        if 'generated' not in e_obs:
            e_obs['generated'] = {'err': e_obs['store'].get('err')}
        e_obs['parts'], trajs['parts'] = run_engine(via_parts)
        e_obs['composite'], trajs['composite'] = run_engine(via_composite)
        obs['engine'] = e_obs
        obs['trajs'] = trajs
        now = {k: encp(c[k]) for k in PARTS}
        if sort_enc(now) != sort_enc(parts_before):
            fails.append('entry-points: loading the composite into engines changed the composite')
        # ---- oracle (iii)
        n_procs = len(py_proc_paths(pyd(parts_before['processes']))) + \
            len(py_proc_paths(pyd(parts_before['steps'])))
        if clash(pyd(parts_before['processes']), pyd(parts_before['steps'])):
            n_procs = 0    # a key holding a process and a step: merge reported it; not well-formed
        oks = {k: v for k, v in e_obs.items() if k != 'generated' and 'ok' in v}
        if 'ok' in e_obs['composite'] and (n_procs > 0):
            for k in ('parts', 'store'):
                if k == 'parts' and not (c['topology'] and (c['processes'] or c['steps'])):
                    continue
                if 'ok' not in e_obs[k]:
                    fails.append(f'entry-points: Engine(composite=…) loads, Engine({k}=…) raises '
                                 f'{e_obs[k].get("err")}')
                    continue
                a, b = e_obs['composite']['ok'], e_obs[k]['ok']
                # topology / flow entries that name no process or step are not part of the comparison
                holders = union(pyd(parts_before['processes']), pyd(parts_before['steps']))
                for f in ('tree', 'processes', 'steps', 'flow', 'topology'):
                    x, y = a[f], b[f]
                    if f in ('flow', 'topology'):
                        x, y = restrict(x, holders), restrict(y, holders)
                    if prune(x) != prune(y):
                        fails.append(f'entry-points: {f} differs between Engine(composite=…) and '
                                     f'Engine({k}=…)')
                        break
                if trajs['composite'] != trajs[k]:
                    fails.append(f'entry-points: trajectory differs between Engine(composite=…) and '
                                 f'Engine({k}=…)')
        # ---- oracle (iv): generated at a path = generated at the root, under the prefix
        for ci, cdesc in enumerate(case['comps']):
            if cdesc['kind'] != 'composer' or not cdesc['path']:
                continue
            try:
                procs2 = build_procs(case['procs'])
                root = create(dict(cdesc, path=[]), procs2)
                emb = create(cdesc, build_procs(case['procs']))
            except Exception:
                continue
            r1, t1 = run_engine(lambda: dict(composite=root))
            r2, t2 = run_engine(lambda: dict(composite=emb))
            if ('ok' in r1) != ('ok' in r2):
                fails.append(f'embed-run: composite {ci} loads at the root but not at {cdesc["path"]} '
                             f'(or the reverse): {r1.get("err")} / {r2.get("err")}')
            elif 'ok' in r1:
                if under(r2['ok']['tree'], cdesc['path']) != r1['ok']['tree']:
                    fails.append(f'embed-run: store of composite {ci} at {cdesc["path"]} is not the '
                                 f'root store under the prefix')
                if t1 and t2 and 'ok' in t1 and 'ok' in t2:
                    d1 = dict(t1['ok']['d'])
                    d2 = dict(t2['ok']['d'])
                    for t in d1:
                        if t not in d2 or sort_enc(strip_time(under(d2[t], cdesc['path']))) != \
                                sort_enc(strip_time(d1[t])):
                            fails.append(f'embed-run: composite {ci} at {cdesc["path"]} emits different '
                                         f'data at time {t} than at the root')
                            break
                elif t1 != t2 and (t1 is None or t2 is None or ('ok' in t1) != ('ok' in t2)):
                    fails.append(f'embed-run: composite {ci} runs at the root but not at the path')
            break
    return {'obs': obs, 'fails': fails}


def clash(a, b):
    """some key path holds a leaf in one tree and anything in the other"""
    for k, v in a.items():
        if k in b:
            w = b[k]
            if isinstance(v, dict) and isinstance(w, dict):
                if clash(v, w):
                    return True
            else:
                return True
    return False


def restrict(j, holders):
    """keep only the entries of an encoded topology/flow tree that sit at the path of a process"""
    if not is_d(j) or not isinstance(holders, dict):
        return j
    out = []
    for k, v in j['d']:
        if k in holders:
            out.append([k, restrict(v, holders[k]) if isinstance(holders[k], dict) else v])
    return {'d': out}


def strip_time(j):
    if is_d(j):
        return {'d': [kv for kv in j['d'] if kv[0] != 'time']}
    return j


def under(j, path):
    for k in path:
        if not is_d(j):
            return None
        nxt = [v for kk, v in j['d'] if kk == k]
        rest = [kk for kk, v in j['d'] if kk != k and kk != 'time']
        if not nxt or rest:
            return None
        j = nxt[0]
    return j


def pyd_keep(d):
    return d


def enc_plain(d):
    if isinstance(d, dict):
        return {'d': [[k, enc_plain(v)] for k, v in d.items()]}
    if isinstance(d, list):
        return {'l': [enc_plain(x) for x in d]}
    return d


def _named(override, pas, out):
    """which process (pid) gets which override, by walking the override tree along the merged
    processes-and-steps tree — the reading of 'the process the override names'"""
    for k, ov in override.items():
        node = pas.get(k)
        if isinstance(node, dict):
            if isinstance(ov, dict):
                _named(ov, node, out)
        elif node is not None:
            pid = json.loads(node)
            if isinstance(pid, str):
                out[pid] = union(out.get(pid, {}), ov) if pid in out else ov


def _reapplied(tgt, procs, pid):
    """True iff the target's accumulated _schema names this process (merge re-applies the whole
    accumulated override dictionary, which is idempotent for the named processes)"""
    named = {}
    try:
        pas = union(pyd(encp(tgt['processes'])), pyd(encp(tgt['steps'])))
        _named(tgt._schema, pas, named)
    except Exception:
        return True
    return pid in named


# ------------------------------------------------------------------ model side

def model_requests(case):
    req = {'op': 'scenario', 'procs': case['procs'], 'comps': case['comps'], 'ops': case['ops'],
           'engine': case.get('engine')}
    return [req]


def _model_alias(alias):
    pairs = []
    for ci, comp in enumerate(alias):
        for pi, part in enumerate(comp):
            for path, addr in part:
                pairs.append(((ci, pi, tuple(path)), addr))
    return canon_alias(pairs)


def _model_snap(s):
    return {k: s[k] for k in PARTS}


def model_obs(case, ans):
    a = ans[0]
    if 'bad' in a:
        return {'bad': a['bad']}
    obs = {'created': [_model_snap(s) for s in a.get('created', [])], 'steps': []}
    if 'create_err' in a:
        obs['create_err'] = a['create_err']
        return obs
    obs['ov0'] = a['ov0']
    obs['alias0'] = _model_alias(a['alias0'])
    for s in a['steps']:
        obs['steps'].append({'err': s['err'], 'snaps': [_model_snap(x) for x in s['snaps']],
                             'ov': s['ov'], 'alias': _model_alias(s['alias']),
                             'heap_ok': s['heap_ok'], 'reflect': s['reflect']})
    if a.get('engine'):
        obs['engine'] = a['engine']
    return obs


def _ov_canon(ov, table):
    """override store as {pid: sorted override}; processes never overridden count as {}"""
    if isinstance(ov, dict) and 'd' in ov:
        d = {k: v for k, v in ov['d']}
    else:
        d = dict(ov)
    return {pid: sort_enc(d.get(pid, D())) for pid, _ in table['d']}


def compare(case, impl, model):
    io = impl.get('obs') if isinstance(impl, dict) else None
    if io is None:
        return f'implementation probe failed: {_short(impl)}'
    if 'bad' in model:
        return f'driver rejected the request: {model["bad"]}'
    diffs = []
    if io.get('create_err') != model.get('create_err'):
        return f'create_err: impl={io.get("create_err")} model={model.get("create_err")}'
    if sort_enc(io['created']) != sort_enc(model['created']):
        diffs.append(f'created: impl={_short(io["created"])} model={_short(model["created"])}')
    if 'create_err' in io:
        return '; '.join(diffs) or None
    table = case['procs']
    if _ov_canon(io['ov0'], table) != _ov_canon(model['ov0'], table):
        diffs.append(f'ov0: impl={_short(io["ov0"])} model={_short(model["ov0"])}')
    if io['alias0'] != model['alias0']:
        diffs.append('alias0 differs')
    for i, (a, b) in enumerate(zip(io['steps'], model['steps'])):
        if a['err'] != b['err']:
            diffs.append(f'merge #{i} err: impl={a["err"]} model={b["err"]}')
        if sort_enc(a['snaps']) != sort_enc(b['snaps']):
            for ci, (x, y) in enumerate(zip(a['snaps'], b['snaps'])):
                if sort_enc(x) != sort_enc(y):
                    diffs.append(f'merge #{i} composite {ci}: impl={_short(x)} model={_short(y)}')
                    break
        if _ov_canon(a['ov'], table) != _ov_canon(b['ov'], table):
            diffs.append(f'merge #{i} overrides: impl={_short(a["ov"])} model={_short(b["ov"])}')
        if not b['heap_ok']:
            diffs.append(f'merge #{i}: heap model failed (fuel/exception)')
        elif a['alias'] != b['alias']:
            diffs.append(f'merge #{i} sharing of dict objects: impl={_short(_shared(a["alias"]))} '
                         f'model={_short(_shared(b["alias"]))}')
        else:
            # the heap model read back must be the value model
            refl = [[sort_enc(p) for p in comp] for comp in b['reflect']]
            vals = [[sort_enc(s[k]) for k in PARTS] for s in b['snaps']]
            if refl != vals:
                diffs.append(f'merge #{i}: heap model and value model disagree')
        if diffs:
            break
    if len(io['steps']) != len(model['steps']):
        diffs.append('number of steps differs')
    if 'engine' in io and not diffs:
        me = model.get('engine') or {}
        for k in ('generated', 'composite', 'parts', 'store'):
            a, b = io['engine'].get(k), me.get(k)
            if a is None or b is None:
                diffs.append(f'engine {k}: missing on one side')
                continue
            if ('ok' in a) != ('ok' in b):
                diffs.append(f'engine {k}: impl={_short(a)} model={_short(b)}')
            elif 'ok' in a:
                if sort_enc(a['ok']) != sort_enc(b['ok']):
                    if isinstance(a['ok'], dict) and 'tree' in a['ok']:
                        bad = [f for f in a['ok'] if sort_enc(a['ok'][f]) != sort_enc(b['ok'].get(f))]
                        diffs.append(f'engine {k} {bad}: impl={_short({f: a["ok"][f] for f in bad})} '
                                     f'model={_short({f: b["ok"].get(f) for f in bad})}')
                    else:
                        diffs.append(f'engine {k}: impl={_short(a)} model={_short(b)}')
            elif a['err'] != b['err'] and k in ('composite', 'parts'):
                # generate_store() first walks processes|steps as a *set* (initial_state): which of
                # several errors is met first is not determined, so only the fact is compared there
                diffs.append(f'engine {k} error kind: impl={a["err"]} model={b["err"]}')
    return '; '.join(diffs[:4]) if diffs else None


def _shared(alias):
    return [x for x in alias if x[0] != x[1]]


def _short(x):
    s = json.dumps(x, default=str)
    return s if len(s) < 400 else s[:400] + '…'


def oracle(case, impl):
    if not isinstance(impl, dict) or 'fails' not in impl:
        return [f'probe-crashed: {_short(impl)}']
    return impl['fails']


def nontrivial(case, impl):
    real = [op for op in case['ops'] if op.get('other') is not None or any(op.get(k) for k in PARTS)
            or any(op.get(k + '_from') is not None for k in PARTS)]
    return bool(real) and bool(case.get('engine')) and isinstance(impl, dict) and \
        'engine' in impl.get('obs', {})


def classify(case, failure):
    return None


def stats(results):
    from collections import Counter
    kinds = Counter()
    nops = Counter()
    errs = Counter()
    eng = Counter()
    paths = Counter()
    for r in results:
        c = r['case']
        for comp in c['comps']:
            kinds[comp['kind']] += 1
        nops[len(c['ops'])] += 1
        for op in c['ops']:
            paths[len(op.get('path', []))] += 1
            if op.get('other') == op.get('target'):
                kinds['self-merge'] += 1
            if op.get('schema'):
                kinds['override'] += 1
            if any(op.get(k + '_from') is not None for k in PARTS):
                kinds['loose-from-composite'] += 1
        io = r['impl'].get('obs', {}) if isinstance(r['impl'], dict) else {}
        if 'create_err' in io:
            errs['create:' + io['create_err']] += 1
        for s in io.get('steps', []):
            if s['err']:
                errs['merge:' + s['err']] += 1
        for k, v in (io.get('engine') or {}).items():
            eng[f"{k}:{'ok' if 'ok' in v else v.get('err')}"] += 1
    return {'composite_kinds': dict(kinds), 'merges_per_scenario': dict(nops),
            'merge_path_lengths': dict(paths), 'error_branches': dict(errs),
            'engine_entry_results': dict(eng)}


def shrink(case):
    ops = case['ops']
    for i in range(len(ops)):
        c = dict(case)
        c['ops'] = ops[:i] + ops[i + 1:]
        yield c
    if case.get('engine'):
        c = dict(case)
        c['engine'] = None
        yield c
    for i, op in enumerate(ops):
        for k in [p + '_from' for p in PARTS]:
            if op.get(k) is not None:
                c = dict(case)
                o = dict(op)
                o.pop(k)
                c['ops'] = ops[:i] + [o] + ops[i + 1:]
                yield c
        for k in PARTS + ['schema']:
            if op.get(k):
                c = dict(case)
                o = dict(op)
                o.pop(k)
                c['ops'] = ops[:i] + [o] + ops[i + 1:]
                yield c
        if op.get('path'):
            c = dict(case)
            c['ops'] = ops[:i] + [dict(op, path=[])] + ops[i + 1:]
            yield c
    if len(case['comps']) > 1:
        used = {case.get('engine', {}).get('comp') if case.get('engine') else None}
        for op in ops:
            used.add(op['target'])
            used.add(op.get('other'))
            for k in PARTS:
                used.add(op.get(k + '_from'))
        last = len(case['comps']) - 1
        if last not in used:
            c = dict(case)
            c['comps'] = case['comps'][:-1]
            yield c


LEVEL_TEXT = ('Lean 4 theorems, for all composites, paths and merge sequences (unbounded): generate at a path '
              '= assoc_in {} path of each part; merge = right-biased deep union under the path (one-level '
              'law of deep_merge, for every key); on a heap of dict objects, Composite.merge writes only '
              'objects reachable from the target or newly allocated, so every other composite of a '
              'pairwise-separated pool is left untouched and the pool stays pairwise separated — by '
              'induction over arbitrary merge sequences (templates merged repeatedly, self-merges, loose '
              'parts that are new dictionaries or another pool composite\'s own part dictionaries); the composite and parts entry points of _make_store compute the same tuple; '
              'schema overrides change exactly the named processes. Model tied to the code by '
              'differential runs incl. id()-graphs of the dict objects and the stores each entry point builds.')
LEVEL_NOTE = ('Trusted: Lean kernel; axioms ⊆ {propext, Classical.choice, Quot.sound}; hand-written models of '
              'composer.py / dict_utils.py / the part of store.py and engine.py the entry points use '
              '(flat port schemas), validated by correspondence. Not proved in Lean, checked by the oracle on '
              'the implementation: the store entry point (get_* inverse to generate; only the composite and '
              'loose-parts branches are proved equal), '
              'running at a path = running at the root under the prefix, and equality of the emitted '
              'trajectories of the three entry points.')
TECHNIQUE = ('Lean 4 proof (heap-region invariant + induction over merge sequences; structural induction over '
             'dictionaries) + model/code correspondence (differential, incl. object identity)')


# one compartment model through the entry points parts / composite / store / merge / template / composer (steps of one
# layer in path order, nested steps, run-time generation), and glob children arriving with Engine(store=, initial_state=)
from harness import dynflow as _df                      # noqa: E402
from harness import storeinit as _si                    # noqa: E402
from harness.mixins import add_family as _add_family    # noqa: E402
_add_family(globals(), _df, 'dynflow', lambda case, impl: _df.oracle(case, impl, who=('values', 'published')), share=0.06)
_add_family(globals(), _si, 'storeinit', _si.oracle, share=0.03)
# schema overrides reach exactly the process they name (processes sharing a schema object or a parameter dictionary)
from harness import schemaleak as _sl                   # noqa: E402
_add_family(globals(), _sl, 'schemaleak', _sl.oracle, share=0.03)


# a schema override on a parallel process reaches it through every entry point
from harness import paroverride as _po                  # noqa: E402
from harness.mixins import add_family as _add_family    # noqa: E402,F811
_add_family(globals(), _po, 'paroverride', _po.oracle, share=0.02)


# derivers among the processes run before the flow-less steps of the `steps` dictionary, through every entry point
from harness import legacypar as _lp                    # noqa: E402
_add_family(globals(), _lp, 'legacypar', _lp.oracle, share=0.02)


# compartments held in dictionary subclasses (OrderedDict, defaultdict), merged at several places
from harness import odictmerge as _om                   # noqa: E402
_add_family(globals(), _om, 'odictmerge', _om.oracle, share=0.02)
