"""C01 — every process update is applied exactly once, at the end of its interval."""
from harness import sched_common as sc
from harness.sched_prop import install


def view(case, events, info):
    inv = sc.project(events, ('invoke',), drop=('view', 'start', 'due', 'ts'))
    app = sc.project(events, ('apply',), drop=('due',))
    rows = {}
    for ev in events:
        if ev['e'] == 'emit':
            rows[ev['t']] = ev['row']
    return {'invoke': inv, 'apply': app, 'rows': sorted(rows.items()), 'raised': info.get('raised')}


def oracle(case, impl):
    """Exactly-once, on time, in order; the observable sum form; quiet contributes nothing."""
    fails = []
    if impl.get('timeout'):
        return []          # termination is C03's business
    log = impl['log']
    invoked = {}       # (p, n) -> event
    applied = {}       # (p, n) -> [t]
    last_applied_n = {}
    for ev in log:
        if ev['e'] == 'invoke':
            invoked[(tuple(ev['p']), ev['n'])] = ev
        elif ev['e'] == 'apply':
            key = (tuple(ev['p']), ev['n'])
            applied.setdefault(key, []).append(ev['t'])
            p = key[0]
            if last_applied_n.get(p, -1) >= ev['n'] and len(applied[key]) == 1:
                fails.append(f'order: update {ev["n"]} of {p} applied after update {last_applied_n[p]}')
            last_applied_n[p] = max(last_applied_n.get(p, -1), ev['n'])
            if key not in invoked:
                fails.append(f'phantom: update {key} applied but never returned by next_update')
    if impl.get('raised'):
        fails.append(f'engine-raised: {impl["raised"]}: {impl.get("msg")}')
        return fails
    gt_final = impl.get('gt')
    for key, ev in invoked.items():
        ts = applied.get(key, [])
        if len(ts) > 1:
            fails.append(f'twice: update {key} applied {len(ts)} times at {ts}')
        if ev.get('start') is not None:
            due = ev['start'] + ev['ts']
            if ts and ts[0] != due:
                fails.append(f'time: update {key} for interval [{ev["start"]},{due}] applied at {ts[0]}')
            if not ts and gt_final is not None and due <= gt_final:
                fails.append(f'lost: update {key} due at {due} never applied (clock at {gt_final})')
    # observable form: emitted value = initial + sum of updates whose interval ended at or before T
    init = {v: x for v, x in case['store']}
    for row in [ev for ev in log if ev['e'] == 'emit']:
        T = row['t']
        expect = dict(init)
        for key, ev in invoked.items():
            if ev.get('start') is not None and ev['start'] + ev['ts'] <= T:
                for v, d in ev['u']:
                    expect[v] = expect.get(v, 0) + d
        # steps are processes with timestep 0: what a step returned in a phase at or before T counts
        for ev in log:
            if ev['e'] == 'stepInvoke' and ev['t'] <= T:
                for v, d in ev['u']:
                    expect[v] = expect.get(v, 0) + d
        got = dict(row['row'])
        if got != expect:
            fails.append(f'sum: row at {T} is {sorted(got.items())}, expected {sorted(expect.items())}')
            break
    # a quiet poll (condition false) contributes nothing: a step is invoked only right after its update
    # condition was consulted and held (for processes the trace correspondence compares askCond/invoke)
    held = set()
    for ev in log:
        if ev['e'] == 'stepCond' and ev['ans']:
            held.add((tuple(ev['p']), ev['k'], ev['t']))
        elif ev['e'] == 'stepInvoke' and (tuple(ev['p']), ev['k'], ev['t']) not in held:
            fails.append(f'quiet: step {ev["p"]} invoked at {ev["t"]} although its update condition did not hold')
            break
    return fails


install(globals(), 'C01', view, oracle,
        gen_opts=dict(steps_ok=True, max_steps=2, emit_variants=False),
        budget={'quick': 250, 'thorough': 6000},
        rule='scenario = 1–4 probe processes (timestep scripted by call count or state-dependent; update '
             'condition constant/scripted/state-dependent; updates = private token + shared accumulating variables '
             'depending on timestep, invocation index and observed state), 1–4 run_for/update calls with arbitrary '
             'intervals, tick unit ∈ {1, 0.25, 0.5, 0.1@p=1, 0.01@p=2, 2}, started at any initial_global_time; 0–2 steps '
             '(with update conditions) whose updates count in the sums. '
             'Non-trivial: ≥ 2 processes and ≥ 12 trace events. Distinct by canonical JSON.',
        level_text='Lean 4 theorems over the scheduler model (the run_for loop with arbitrary process oracles): '
                   'loop-head invariant; in every reachable log the invocations and applications of each process '
                   'alternate, each application carries exactly the update returned by the preceding invocation, at '
                   'the global time at which its interval ends (never early, never twice, never out of order); '
                   'nothing stays pending after a forced run; quiet polls invoke nothing; the store of every reachable '
                   'state is the initial state with exactly the logged applications replayed, and every emitted row '
                   'at time T is the flagged part of the replay of the applications before it, all of which happened '
                   'at times <= T and all later ones at times > T (observable form). Tied to engine.py by '
                   'event-trace correspondence on generated scenarios.',
        level_note='Trusted: Lean kernel + standard axioms; scheduler model faithful to Engine.run_for as far as '
                   'the trace correspondence sampled it; the float clock only on exact tick grids; parallel '
                   'execution is covered by C13; the hierarchy/topology side of applying an update by C06/C08.',
        technique='Lean 4 invariant proof over the scheduler loop + event-trace correspondence',
        required=['exactly_once', 'applied_on_time', 'nothing_pending_after_run', 'quiet_invokes_nothing', 'accepted_applies_on_time',
                  'state_is_replay_of_applied', 'observable_form'])


# ------------------------------------------------------------------------------------------------
# "serial or parallel execution of each process": some scenarios are run a second time with every
# process as a real ParallelProcess worker; the emitted rows and the final state must be those of
# the serial run (whose trace is checked event by event above).
_generate0 = generate
_run0 = run_impl
_oracle0 = oracle
_compare0 = compare


def generate(rng, n, tier):
    cases = list(_generate0(rng, n, tier))
    extra = []
    for _ in range(max(3, n // 25)):
        c = sc.gen_scenario(rng, max_procs=3, steps_ok=False, emit_variants=False, p_quiet=0.5, max_calls=3)
        for p in c['procs']:
            p['parallel'] = True
        c['par'] = True
        extra.append(c)
    return cases + extra


def run_impl(case):
    obs = _run0(case)
    if case.get('par'):
        par = sc.run_engine(case, parallel_ok=True)
        obs['par'] = {'rows': [[ev['t'], ev['row']] for ev in par.get('log', []) if ev['e'] == 'emit'],
                      'store': par.get('store'), 'raised': par.get('raised'), 'end_raised': par.get('end_raised'),
                      'timeout': par.get('timeout')}
    return obs


def oracle(case, impl):
    fails = list(_oracle0(case, impl))
    par = impl.get('par') if isinstance(impl, dict) else None
    if par:
        if par.get('raised') or par.get('end_raised') or par.get('timeout'):
            fails.append(f'parallel: the run with parallel processes failed: {par}')
        else:
            rows = [[ev['t'], ev['row']] for ev in impl.get('log', []) if ev['e'] == 'emit']
            if par['rows'] != rows or par['store'] != impl.get('store'):
                fails.append('parallel: with the same processes run in parallel the emitted values differ '
                             f'(serial {str(rows)[:200]} / parallel {str(par["rows"])[:200]})')
    return fails[:6]


# container-valued variables: what is applied at the end of an interval is the update as it was returned
# (computed from the state the process was started on), whatever else was applied to that state meanwhile
from harness import valuesnap as _vs               # noqa: E402
from harness.mixins import add_family as _add_family   # noqa: E402
_add_family(globals(), _vs, 'valuesnap', _vs.oracle, share=0.08)

# one update naming its own updater among ordinary ones: afterwards the declared updater sums again
from harness import onceset as _os                  # noqa: E402
_add_family(globals(), _os, 'onceset', _os.oracle, share=0.05)
# a process returning the same update object from every call through several ports: each update applied once
from harness import reuseupd as _ru                 # noqa: E402
_add_family(globals(), _ru, 'reuseupd', _ru.oracle, share=0.04)


# a process deleted or replaced while its update is in flight: that update never arrives, the newcomer starts afresh
from harness import deadwriter as _dw                   # noqa: E402
_add_family(globals(), _dw, 'deadwriter', _dw.oracle, share=0.04)


# an update condition over a collection whose members are deleted, moved away and added
from harness import gonecond as _gc                     # noqa: E402
_add_family(globals(), _gc, 'gonecond', _gc.oracle, share=0.04)


# updates whose value is falsy (0, False, '') are updates: never lost, whatever the port is wired to
from harness import falsymulti as _fm                   # noqa: E402
_add_family(globals(), _fm, 'falsymulti', _fm.oracle, share=0.03)


# updates through a glob port wired with a dictionary topology, tick after tick
from harness import globdict as _gd                     # noqa: E402
_add_family(globals(), _gd, 'globdict', _gd.oracle, share=0.03)
