"""Children moved between collections by an update issued at their common ancestor (scenario family of C07).

A viewer declares glob ports on two collections `envA/agents` and `envB/agents`.  A mover, whose ports
are wired to `envA` and `envB`, moves children from one collection to the other by `_move` with a source
path of two segments (`('agents', key)` below its port) or of one segment (issued at the collection, the
target being a port and a path below it), adds and deletes others.
From its next invocation on the viewer sees every child in exactly the collection the issued updates
put it in — a moved child in the target only, with the values it had — and nothing that was deleted.

The compartments that exist from the start hold a process of their own, wired upwards (`('..', '..')`: the
environment that holds their collection): after a move it reads the `level` of the environment the
compartment is in now.

Oracle: the children the viewer is shown per collection are the ones that follow from the issued updates;
every inner process is shown the level of the environment its compartment is in at that invocation."""
import itertools

_ids = itertools.count()


def gen_case(rng):
    kids = {'envA': ['a', 'b'], 'envB': ['c']}
    n = 0
    steps = []
    for _ in range(rng.choice([2, 3, 4])):
        src = rng.choice(['envA', 'envB'])
        dst = 'envB' if src == 'envA' else 'envA'
        r = rng.random()
        if r < 0.6 and kids[src]:
            k = rng.choice(kids[src])
            kids[src].remove(k)
            kids[dst].append(k)
            steps.append({'op': 'move', 'from': src, 'to': dst, 'key': k, 'far': rng.random() < 0.7})
        elif r < 0.8:
            n += 1
            k = f'n{n}'
            kids[src].append(k)
            steps.append({'op': 'add', 'from': src, 'key': k})
        elif kids[src]:
            k = rng.choice(kids[src])
            kids[src].remove(k)
            steps.append({'op': 'delete', 'from': src, 'key': k})
        else:
            steps.append({'op': 'none'})
    return {'kind': 'movefar', 'steps': steps}


def classify(case, failure):
    # F59 (known): a compartment moved into a collection whose glob schema declares more than it holds is not given
    # the collection's sub-schema (`_add`, `_generate`, `_divide` do that): the next view cannot be built
    if case.get('wider') and failure.startswith('move-raised: Exception: (\'vol\',) is not a valid path') \
            and any(s['op'] == 'move' and s['to'] == 'envB' for s in case['steps']):
        return 'F59'
    return None


def corpus():
    return [{'kind': 'movefar', 'steps': [{'op': 'move', 'from': 'envA', 'to': 'envB', 'key': 'a', 'far': True},
                                           {'op': 'none'},
                                           {'op': 'move', 'from': 'envB', 'to': 'envA', 'key': 'c', 'far': True}]},
            # F59 (known finding): the target collection declares a variable the moved compartment does not hold
            {'kind': 'movefar', 'wider': True, 'expect_known': 'F59',
             'steps': [{'op': 'move', 'from': 'envA', 'to': 'envB', 'key': 'a', 'far': False}, {'op': 'none'}]},
            {'kind': 'movefar', 'steps': [{'op': 'move', 'from': 'envA', 'to': 'envB', 'key': 'b', 'far': False},
                                           {'op': 'add', 'from': 'envA', 'key': 'n1'},
                                           {'op': 'delete', 'from': 'envB', 'key': 'c'}]}]


def reference(case):
    kids = {'envA': {'a': 1, 'b': 2}, 'envB': {'c': 3}}
    out = [{e: dict(v) for e, v in kids.items()}]
    for s in case['steps']:
        if s['op'] == 'move':
            kids[s['to']][s['key']] = kids[s['from']].pop(s['key'])
        elif s['op'] == 'add':
            kids[s['from']][s['key']] = 50
        elif s['op'] == 'delete':
            kids[s['from']].pop(s['key'])
        out.append({e: dict(v) for e, v in kids.items()})
    return out


def run_impl(case):
    import copy
    import warnings
    warnings.simplefilter('ignore')
    from vivarium.core.engine import Engine
    from vivarium.core.process import Process
    script = list(case['steps'])
    seen = []

    class Viewer(Process):
        name = f'movefar-viewer-{next(_ids)}'

        def ports_schema(self):
            if case.get('wider'):
                return {'A': {'*': {'x': {'_default': 0}}}, 'B': {'*': {'x': {'_default': 0}, 'vol': {'_default': 7}}}}
            return {'A': {'*': {'x': {'_default': 0}}}, 'B': {'*': {'x': {'_default': 0}}}}

        def next_update(self, timestep, states):
            seen.append({'envA': {k: v['x'] for k, v in states['A'].items()},
                         'envB': {k: v['x'] for k, v in states['B'].items()}})
            return {}

    inner_seen = {}

    class Inner(Process):
        name = f'movefar-inner-{next(_ids)}'

        def ports_schema(self):
            return {'own': {'x': {'_default': 0}}, 'env': {'level': {'_default': 0}}}

        def next_update(self, timestep, states):
            inner_seen.setdefault(self.parameters['tag'], []).append(states['env']['level'])
            return {}

    watched = []

    class Watcher(Process):
        """declares the members of a collection and nothing of them (`'*': {}`): one empty entry per member"""
        name = f'movefar-watcher-{next(_ids)}'

        def ports_schema(self):
            return {'members': {'*': {}}}

        def next_update(self, timestep, states):
            watched.append({k: (sorted(v) if isinstance(v, dict) else repr(v)) for k, v in states['members'].items()})
            return {}

    class Editor(Process):
        """declares the variables the members of that collection hold"""
        name = f'movefar-editor-{next(_ids)}'

        def ports_schema(self):
            return {'members': {'*': {'x': {'_default': 1}, 'inner': {'y': {'_default': 3}}}}}

        def next_update(self, timestep, states):
            return {}

    class Mover(Process):
        name = f'movefar-mover-{next(_ids)}'

        def ports_schema(self):
            return {'envA': {'agents': {'*': {'x': {'_default': 0}}}},
                    'envB': {'agents': {'*': {'x': {'_default': 0}}}}}

        def next_update(self, timestep, states):
            if not script:
                return {}
            s = script.pop(0)
            if s['op'] == 'move' and s['far']:
                return {s['from']: {'_move': [{'source': ('agents', s['key']), 'target': s['to']}]}}
            if s['op'] == 'move':
                return {s['from']: {'agents': {'_move': [{'source': (s['key'],), 'target': (s['to'], 'agents')}]}}}
            if s['op'] == 'add':
                return {s['from']: {'agents': {'_add': [{'key': s['key'], 'state': {'x': 50}}]}}}
            if s['op'] == 'delete':
                return {s['from']: {'agents': {'_delete': [s['key']]}}}
            return {}

    obs = {}
    try:
        wiring = {'inner': {'own': (), 'env': ('..', '..')}}
        eng = Engine(processes={'mover': Mover({}), 'viewer': Viewer({}), 'watcher': Watcher({}), 'editor': Editor({}),
                                'envA': {'agents': {'a': {'inner': Inner({'tag': 'a'})},
                                                    'b': {'inner': Inner({'tag': 'b'})}}},
                                'envB': {'agents': {'c': {'inner': Inner({'tag': 'c'})}}}},
                     topology={'mover': {'envA': ('envA',), 'envB': ('envB',)},
                               'viewer': {'A': ('envA', 'agents'), 'B': ('envB', 'agents')},
                               'watcher': {'members': ('static',)}, 'editor': {'members': ('static',)},
                               'envA': {'agents': {'a': dict(wiring), 'b': dict(wiring)}},
                               'envB': {'agents': {'c': dict(wiring)}}},
                     initial_state={'level': -1, 'static': {'s1': {'x': 1, 'inner': {'y': 3}}, 's2': {'x': 2}},
                                    'envA': {'level': 100, 'agents': {'a': {'x': 1}, 'b': {'x': 2}}},
                                    'envB': {'level': 200, 'agents': {'c': {'x': 3}}}},
                     emitter={'type': 'null'}, display_info=False, progress_bar=False)
        for _ in range(len(case['steps']) + 1):
            eng.update(1)
        obs['seen'] = seen
        obs['inner'] = inner_seen
        obs['watched'] = watched
        w = eng.state.get_value()
        obs['final'] = {e: {k: v['x'] for k, v in w[e]['agents'].items()} for e in ('envA', 'envB')}
    except Exception as e:  # noqa
        obs['raised'] = f'{type(e).__name__}: {str(e)[:200]}'
    return obs


def oracle(case, impl):
    if 'harness_exception' in impl:
        return [f'probe-crashed: {impl["harness_exception"]}']
    if impl.get('timeout'):
        return []
    if impl.get('raised'):
        return [f'move-raised: {impl["raised"]} ({case["steps"]})']
    want = reference(case)
    fails = []
    for i, (got, w) in enumerate(zip(impl['seen'], want)):
        if got != w:
            fails.append(f'moved-view: at invocation {i} the viewer is shown {got}; after {case["steps"][:i]} the '
                         f'collections hold {w}')
            break
    for i, w in enumerate(impl.get('watched', [])):
        if w != {'s1': [], 's2': []}:
            fails.append(f'undeclared: a process that declares the members of a collection and nothing of them '
                         f'(`*: {{}}`) is shown {w} at invocation {i}; one empty entry per member')
            break
    level = {'envA': 100, 'envB': 200}
    for k in ('a', 'b', 'c'):
        exp = []
        for w in want:
            env = [e for e in ('envA', 'envB') if k in w[e]]
            if not env:
                break
            exp.append(level[env[0]])
        got = impl['inner'].get(k, [])
        if got[:len(exp)] != exp[:len(got)] or len(got) < len(exp):
            fails.append(f'moved-wiring: the process inside compartment {k} (wired to the environment two levels up) is '
                         f'shown the levels {got}; its compartment was in environments with levels {exp}')
            break
    if impl['final'] != want[-1]:
        fails.append(f'moved-state: the hierarchy ends as {impl["final"]}, the issued updates give {want[-1]}')
    return fails
