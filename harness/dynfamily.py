"""Structural histories (the generator and the real-engine runner of C10) as a scenario family for
properties about scheduling: a process that enters the simulation at run time — also at a path that
an earlier, deleted process occupied — is simulated from the moment it entered, in contiguous
intervals whose timesteps add up to the time it has been alive."""
from harness.props import c10


def gen_case(rng):
    case = c10.generate(rng, 1, 'quick')[0]
    case['kind'] = 'dyn'
    return case


def corpus():
    spec = {'procs': {'p': 4}, 'steps': {}}
    spec1 = {'procs': {'p': 1}, 'steps': {}}
    return [{'kind': 'dyn', 'init': [{'key': 'c0', 'spec': spec}],
             'ops': [{'op': 'delete', 'store': 'agents', 'key': 'c0'}, {'op': 'generate', 'key': 'c0', 'spec': spec1}],
             'calls': [[6, True]]}]


def run_impl(case):
    return c10.run_impl(case)


def _lives(case):
    lives = {}
    for c in case['init']:
        lives.setdefault(c['key'], []).append([0, None])
    for k, op in enumerate(case['ops']):
        t = k + 1
        if op['op'] == 'generate':
            lives.setdefault(op['key'], []).append([t, None])
        elif op['op'] == 'delete':
            if lives.get(op['key']):
                lives[op['key']][-1][1] = t
        elif op['op'] == 'divide':
            if lives.get(op['mother']):
                lives[op['mother']][-1][1] = t
            for d in op['daughters']:
                lives.setdefault(d, []).append([t, None])
    return lives


def oracle_intervals(case, impl):
    """C02 on a structural history"""
    if 'harness_exception' in impl:
        return [f'probe-crashed: {impl["harness_exception"]}']
    if impl.get('timeout') or impl.get('raised'):
        return []          # crashes under structural change are C10's / C13's business
    lives = _lives(case)
    end = impl.get('gt', 0)
    per = {}
    for ev in impl.get('log', []):
        if ev['e'] == 'invoke' and ev.get('start') is not None:
            per.setdefault(ev['id'], []).append(ev)
    fails = []
    rebuilt_from = None
    for pid, evs in per.items():
        cell = pid.split('/')[0]
        if cell not in lives:
            continue
        born = None
        for b, d in lives[cell]:
            if b <= evs[0]['gt'] and (d is None or evs[0]['gt'] < d or d > end):
                born, died = b, d
        if born is None:
            continue
        if evs[0]['start'] != born:
            fails.append(f'entry: the first interval of {pid} starts at {evs[0]["start"]}, it entered at {born}')
            break
        for a, b2 in zip(evs, evs[1:]):
            if b2['start'] != a['start'] + round(a['ts']):
                fails.append(f'contiguous: {pid} interval starting {b2["start"]} follows one ending '
                             f'{a["start"] + round(a["ts"])}')
                break
        alive_at_end = died is None or died > end
        if alive_at_end and case['calls'] and case['calls'][-1][1] and not fails:
            # the log also holds the three extra ticks of the rebuild comparison (same engine continued)
            total = sum(round(e['ts']) for e in evs)
            last_end = evs[-1]['start'] + round(evs[-1]['ts'])
            if total != last_end - born:
                fails.append(f'sum: timesteps handed to {pid} sum to {total}, it has been simulated for '
                             f'{last_end - born}')
                break
    return fails[:3]
