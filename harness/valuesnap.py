"""Container-valued variables and snapshots (scenario family of C04, also attached to C01).

The views handed to processes are references to the values the hierarchy holds.  The snapshot
guarantee — an update is computed from the committed state its process was started on, and nothing
changes that update or that view afterwards — therefore also needs every updater to *replace* the
stored value rather than change it in place.  The integer scenarios of the scheduler family cannot
see that; this family uses numpy-array variables with the default (`accumulate`) updater, and
processes that pass a value they were shown straight on as (part of) their update, which is
legitimate: they do not modify it.

Reference: a twenty-line simulation of the documented semantics on integer ticks (constant
timesteps; an update is computed from the state after all updates and at the time its interval
starts, and applied when the interval ends).  The trajectory must equal the reference for every
listing order of the processes (accumulating updates commute)."""
import itertools
import random

_ids = itertools.count()
CTX = {}
VARS = ['a', 'b', 'c']


def gen_case(rng):
    n = rng.choice([2, 3, 3, 4])
    procs = []
    for i in range(n):
        kind = rng.choice(['source', 'mover', 'mover'])
        if i == 0:
            kind = 'source'
        p = {'name': f'q{i}', 'kind': kind, 'ts': rng.choice([1, 1, 2, 3])}
        if kind == 'source':
            p['var'] = rng.choice(VARS)
            p['delta'] = [rng.choice([1, 2, 3]), rng.choice([0, 1, 5])]
        else:
            p['src'], p['dst'] = rng.sample(VARS, 2)
        procs.append(p)
    return {'kind': 'valuesnap', 'procs': procs, 'ticks': rng.choice([4, 5, 6]),
            'init': {v: [rng.choice([0, 1]), rng.choice([0, 2])] for v in VARS},
            'perm_seed': rng.randrange(1 << 30)}


def corpus():
    return [
        # the witness of the in-place accumulate: a slow mover holds a view value while the source keeps adding
        {'kind': 'valuesnap', 'ticks': 4, 'init': {'a': [0, 0], 'b': [0, 0], 'c': [0, 0]}, 'perm_seed': 5,
         'procs': [{'name': 'q0', 'kind': 'source', 'ts': 1, 'var': 'a', 'delta': [1, 2]},
                   {'name': 'q1', 'kind': 'mover', 'ts': 2, 'src': 'a', 'dst': 'b'},
                   {'name': 'q2', 'kind': 'mover', 'ts': 2, 'src': 'b', 'dst': 'c'}]},
    ]


def reference(case):
    """rows {t: {var: [..]}} and the views {(name, t): {var: [..]}} of the documented semantics"""
    state = {v: list(x) for v, x in case['init'].items()}
    pending = {}          # name -> (due, {var: delta})
    rows = {0: {v: list(x) for v, x in state.items()}}
    views = {}

    def start(p, t):
        views[(p['name'], t)] = {v: list(x) for v, x in state.items()}
        if p['kind'] == 'source':
            u = {p['var']: list(p['delta'])}
        else:
            u = {p['dst']: list(state[p['src']])}
        pending[p['name']] = (t + p['ts'], u)
    for p in case['procs']:
        start(p, 0)
    for t in range(1, case['ticks'] + 1):
        due = [p for p in case['procs'] if pending[p['name']][0] == t]
        if not due:
            continue
        for p in due:
            for v, d in pending[p['name']][1].items():
                state[v] = [x + y for x, y in zip(state[v], d)]
        rows[t] = {v: list(x) for v, x in state.items()}
        for p in due:
            if t + p['ts'] <= case['ticks']:
                start(p, t)
            else:
                # update(): the last interval is cut at the end time — sources scale? no: the update does not
                # depend on the timestep here, the interval is just shorter
                views[(p['name'], t)] = {v: list(x) for v, x in state.items()}
                u = {p['var']: list(p['delta'])} if p['kind'] == 'source' else {p['dst']: list(state[p['src']])}
                pending[p['name']] = (case['ticks'], u)
    return rows, views


def _classes():
    import numpy as np
    from vivarium.core.process import Process

    class Q(Process):
        defaults = {'spec': None, 'key': None}

        def ports_schema(self):
            return {'pool': {v: {'_default': np.zeros(2, dtype=int), '_emit': True} for v in VARS}}

        def calculate_timestep(self, states):
            return self.parameters['spec']['ts']

        def next_update(self, timestep, states):
            spec = self.parameters['spec']
            ctx = CTX.get(self.parameters['key'])
            if ctx is not None:
                ctx['log'].append({'e': 'view', 'who': spec['name'], 't': ctx['now'](),
                                   'seen': {v: [int(x) for x in states['pool'][v]] for v in VARS}})
            if spec['kind'] == 'source':
                return {'pool': {spec['var']: np.array(spec['delta'], dtype=int)}}
            # pass the value on as it was shown (no copy: the process does not modify it)
            return {'pool': {spec['dst']: states['pool'][spec['src']]}}
    return Q


def _run(case, order):
    import numpy as np
    from vivarium.core.engine import Engine
    from vivarium.core.emitter import Emitter
    from vivarium.core.registry import emitter_registry
    Q = _classes()
    key = f'vs-{next(_ids)}'
    ctx = {'log': [], 'engine': None}
    ctx['now'] = lambda: 0 if ctx['engine'] is None else int(round(ctx['engine'].global_time))
    CTX[key] = ctx

    class VSEmitter(Emitter):
        def emit(self, data):
            c = CTX.get(self.config.get('ctx_key'))
            if c is not None and data['table'] == 'history':
                pool = data['data'].get('pool') or {}
                c['log'].append({'e': 'emit', 't': int(round(data['data']['time'])),
                                 'row': {v: [int(x) for x in pool[v]] for v in VARS if v in pool}})
    if emitter_registry.access('verif_vs') is None:
        emitter_registry.register('verif_vs', VSEmitter)
    obs = {'log': ctx['log']}
    try:
        procs = [case['procs'][i] for i in order]
        processes = {p['name']: Q({'spec': p, 'key': key}) for p in procs}
        topology = {p['name']: {'pool': ('pool',)} for p in procs}
        init = {'pool': {v: np.array(x, dtype=int) for v, x in case['init'].items()}}
        eng = Engine(processes=processes, topology=topology, initial_state=init,
                     emitter={'type': 'verif_vs', 'ctx_key': key}, display_info=False, progress_bar=False)
        ctx['engine'] = eng
        eng.update(case['ticks'])
        obs['final'] = {v: [int(x) for x in eng.state.get_value()['pool'][v]] for v in VARS}
    except Exception as e:  # noqa
        obs['raised'] = f'{type(e).__name__}: {str(e)[:200]}'
    finally:
        CTX.pop(key, None)
    return obs


def run_impl(case):
    n = len(case['procs'])
    order = list(range(n))
    other = order[:]
    random.Random(case['perm_seed']).shuffle(other)
    if other == order and n > 1:
        other = order[::-1]
    return {'a': _run(case, order), 'b': _run(case, other), 'orders': [order, other]}


def oracle(case, impl):
    if 'harness_exception' in impl:
        return [f'probe-crashed: {impl["harness_exception"]}']
    if impl.get('timeout'):
        return []
    fails = []
    rows_ref, views_ref = reference(case)
    for tag in ('a', 'b'):
        run = impl[tag]
        if run.get('raised'):
            return [f'engine-raised: {run["raised"]}']
        rows = {ev['t']: ev['row'] for ev in run['log'] if ev['e'] == 'emit'}
        for t in sorted(rows_ref):
            if rows.get(t) != rows_ref[t]:
                fails.append(f'snapshot-values: listing {impl["orders"][0 if tag == "a" else 1]}: the row at {t} is '
                             f'{rows.get(t)}, the updates computed from the committed states give {rows_ref[t]}')
                break
        if fails:
            break
        for ev in run['log']:
            if ev['e'] == 'view':
                want = views_ref.get((ev['who'], ev['t']))
                if want is not None and ev['seen'] != want:
                    fails.append(f'snapshot-view: {ev["who"]} started at {ev["t"]} is shown {ev["seen"]}, the '
                                 f'committed state is {want}')
                    break
        if fails:
            break
    if not fails:
        ra = [(ev['t'], ev['row']) for ev in impl['a']['log'] if ev['e'] == 'emit']
        rb = [(ev['t'], ev['row']) for ev in impl['b']['log'] if ev['e'] == 'emit']
        if ra != rb:
            fails.append(f'order: listing order changed the trajectory: {ra} vs {rb}')
    return fails[:3]
