"""An update condition that reads a collection whose members come and go (scenario family of C01 and C07).

A worker adds `k` to a counter per interval and runs only while some member of `signals` says `on`
(`update_condition` over a glob port).  Another process deletes the only member, later adds one again.
From the deletion on the worker's condition is false on the state of every later instant — it contributes
nothing (C01) because it is no longer shown what was deleted (C07) — until a member is added again.

Oracle: the counter at every instant is `k` times the number of worker intervals that ended by then, an
interval being started at a poll at which a member was on."""
import itertools

_ids = itertools.count()


def gen_case(rng):
    off = rng.choice([1, 2, 3])
    on = rng.choice([None, off + 1, off + 2])
    return {'kind': 'gonecond', 'wts': rng.choice([1, 1, 2]), 'k': rng.choice([1, 5]), 'off': off, 'on': on,
            'ticks': (on or off) + rng.choice([2, 3]), 'parallel': rng.random() < 0.15,
            'how': rng.choice(['delete', 'delete', 'move'])}


def corpus():
    return [{'kind': 'gonecond', 'wts': 1, 'k': 1, 'off': 2, 'on': None, 'ticks': 6, 'parallel': False, 'how': 'delete'},
            {'kind': 'gonecond', 'wts': 2, 'k': 5, 'off': 1, 'on': 3, 'ticks': 6, 'parallel': False, 'how': 'move'}]


def reference(case):
    """the worker is polled when it is due; quiet, it is carried to the next event (the switch gives one per time
    unit); running, it is credited at the end of its interval (the last one is cut at the end of the forced call)"""
    credit = {}
    p = 0
    while p < case['ticks']:
        is_on = p < case['off'] or (case['on'] is not None and p >= case['on'])
        if is_on:
            end = min(p + case['wts'], case['ticks'])
            credit[end] = credit.get(end, 0) + case['k']
            p = end
        else:
            p += 1
    out, x = [], 0
    for t in range(1, case['ticks'] + 1):
        x += credit.get(t, 0)
        out.append(x)
    return out


def run_impl(case):
    import warnings
    warnings.simplefilter('ignore')
    from vivarium.core.engine import Engine
    from harness.gonecond_procs import Worker, Switch
    obs = {}
    eng = None
    try:
        eng = Engine(processes={'worker': Worker({'timestep': float(case['wts']), 'k': case['k'],
                                                  '_parallel': case['parallel']}),
                                'switch': Switch({'off': case['off'], 'on': case['on'], 'how': case['how']})},
                     topology={'worker': {'total': ('total',), 'signals': ('signals',)},
                               'switch': {'signals': ('signals',), 'attic': ('attic',)}},
                     initial_state={'signals': {'a': {'on': True}}},
                     emitter={'type': 'ram'}, display_info=False, progress_bar=False)
        eng.update(case['ticks'])
        rows = eng.emitter.get_data()
        obs['xs'] = [rows[float(t)]['total']['x'] for t in range(1, case['ticks'] + 1)]
        obs['signals'] = sorted(eng.state.get_value().get('signals', {}))
    except Exception as e:  # noqa
        obs['raised'] = f'{type(e).__name__}: {str(e)[:200]}'
    finally:
        if eng is not None:
            try:
                eng.end()
            except Exception:  # noqa
                pass
    return obs


def oracle(case, impl):
    if 'harness_exception' in impl:
        return [f'probe-crashed: {impl["harness_exception"]}']
    if impl.get('timeout'):
        return []
    if impl.get('raised'):
        return [f'engine-raised: {impl["raised"]}']
    want = reference(case)
    if impl['xs'] != want:
        return [f'quiet-contributes: the only member of the collection the condition reads is taken away ({case["how"]}) '
                f'at t={case["off"]}' + (f' and one is added at t={case["on"]}' if case['on'] is not None else '') +
                f'; the counter (+{case["k"]} per interval of {case["wts"]} while a member is on) reads {impl["xs"]} at '
                f't=1…{case["ticks"]}, expected {want}']
    return []
