"""A divider with a wildcard topology (scenario family of C11).

A cell's `reserve` is divided by a user divider declared as `{'divider': f, 'topology': {'*': ('..', 'pools')}}`:
`f` is handed, as `state`, one entry per child of the cell's `pools` store (its name and value) and gives the
first daughter what the pools demand in total (at most everything), the second the rest.  A second variable uses
a named entry next to the wildcard (`{'*': …, 'own': ('..', 'bonus')}`).  Cells with 1, 2 and 5 pools divide over two generations.

Oracle: the divider is handed exactly the pools of the mother, by name; the daughters' shares are what it
promises from those values and add up to the mother's; the pools' own variables follow their dividers."""
import itertools

_ids = itertools.count()
DEMANDS = {'p': 5, 'q': 7, 'r': 11, 's': 13, 't': 3}


def gen_case(rng):
    n = rng.choice([1, 2, 5, 3])
    return {'kind': 'wilddiv', 'pools': sorted(rng.sample(sorted(DEMANDS), n)), 'reserve': rng.choice([1000, 10, 0]),
            'generations': rng.choice([1, 2]), 'bonus': rng.choice([0, 4])}


def corpus():
    return [{'kind': 'wilddiv', 'pools': ['p'], 'reserve': 1000, 'generations': 2, 'bonus': 4},
            {'kind': 'wilddiv', 'pools': ['p', 'q', 'r', 's', 't'], 'reserve': 1000, 'generations': 1, 'bonus': 0},
            {'kind': 'wilddiv', 'pools': ['p', 'q'], 'reserve': 10, 'generations': 2, 'bonus': 4}]


def run_impl(case):
    import warnings
    warnings.simplefilter('ignore')
    from vivarium.core.engine import Engine
    from vivarium.core.process import Process
    seen = []
    pools = list(case['pools'])

    def cover_demand(reserve, state):
        seen.append(sorted(state))
        demand = sum(pool['demand'] for pool in state.values())
        first = min(reserve, demand)
        return [first, reserve - first]

    def with_bonus(value, state):
        own = state.pop('own')
        seen.append(sorted(state))
        return [value + own + len(state), value]

    class Cell(Process):
        name = f'wilddiv-cell-{next(_ids)}'

        def ports_schema(self):
            return {'reserve': {'_default': 0, '_divider': {'divider': cover_demand,
                                                            'topology': {'*': ('..', 'pools')}}},
                    'tagged': {'_default': 0, '_divider': {'divider': with_bonus,
                                                           'topology': {'*': ('..', 'pools'), 'own': ('..', 'bonus')}}},
                    'bonus': {'_default': 0, '_divider': 'set'},
                    'pools': {name: {'demand': {'_default': 0, '_divider': 'set'},
                                     'level': {'_default': 0, '_divider': 'split'}} for name in pools}}

        def next_update(self, timestep, states):
            return {}
    topology = {'cell': {'reserve': ('reserve',), 'tagged': ('tagged',), 'bonus': ('bonus',), 'pools': ('pools',)}}

    def value(eng, key):
        st = eng.state.get_path(('agents', key))
        return {'reserve': st.get_path(('reserve',)).get_value(), 'tagged': st.get_path(('tagged',)).get_value(),
                'pools': st.get_path(('pools',)).get_value()}
    obs = {'divisions': []}
    try:
        eng = Engine(processes={'agents': {'c': {'cell': Cell({})}}}, topology={'agents': {'c': topology}},
                     initial_state={'agents': {'c': {'reserve': case['reserve'], 'tagged': 100, 'bonus': case['bonus'],
                                                     'pools': {n: {'demand': DEMANDS[n], 'level': 8} for n in pools}}}},
                     emitter={'type': 'null'}, display_info=False, progress_bar=False)
        eng.update(1)
        mothers = ['c']
        for _ in range(case['generations']):
            nxt = []
            for m in mothers:
                before = value(eng, m)
                del seen[:]
                eng.apply_update({'agents': {'_divide': {'mother': m, 'daughters': [
                    {'key': m + s, 'processes': {'cell': Cell({})}, 'topology': dict(topology)} for s in '01']}}},
                    eng.state)
                eng.state.build_topology_views()
                obs['divisions'].append({'mother': m, 'before': before, 'handed': [list(x) for x in seen],
                                         'd0': value(eng, m + '0'), 'd1': value(eng, m + '1')})
                nxt += [m + '0', m + '1']
            eng.update(1)
            mothers = nxt
    except Exception as e:  # noqa
        obs['raised'] = f'{type(e).__name__}: {str(e)[:200]}'
    return obs


def oracle(case, impl):
    if 'harness_exception' in impl:
        return [f'probe-crashed: {impl["harness_exception"]}']
    if impl.get('timeout'):
        return []
    if impl.get('raised'):
        return [f'divide-raised: {impl["raised"]}']
    pools = sorted(case['pools'])
    fails = []
    for d in impl['divisions']:
        b = d['before']
        demand = sum(p['demand'] for p in b['pools'].values())
        first = min(b['reserve'], demand)
        if sorted(map(tuple, d['handed'])) != sorted([tuple(pools), tuple(pools)]):
            fails.append(f'divider-state: dividing {d["mother"]} (pools {pools}): the dividers with the topology '
                         f'{{"*": ("..", "pools")}} were handed the keys {d["handed"]}')
        if (d['d0']['reserve'], d['d1']['reserve']) != (first, b['reserve'] - first):
            fails.append(f'divider-share: {d["mother"]} holds reserve {b["reserve"]}, its pools demand {demand}: the '
                         f'daughters hold {d["d0"]["reserve"]} and {d["d1"]["reserve"]}, promised {first} and '
                         f'{b["reserve"] - first}')
        want_tag = (b['tagged'] + case['bonus'] + len(pools), b['tagged'])
        if (d['d0']['tagged'], d['d1']['tagged']) != want_tag:
            fails.append(f'divider-share: `tagged` {b["tagged"]} (own entry {case["bonus"]}, {len(pools)} pools): '
                         f'daughters hold {d["d0"]["tagged"]} and {d["d1"]["tagged"]}, promised {want_tag}')
        for n in pools:
            lv = b['pools'][n]['level']
            got = (d['d0']['pools'][n], d['d1']['pools'][n])
            if got[0]['demand'] != b['pools'][n]['demand'] or got[1]['demand'] != b['pools'][n]['demand'] \
                    or got[0]['level'] + got[1]['level'] != lv:
                fails.append(f'pool-dividers: pool {n} of {d["mother"]} held {b["pools"][n]}, the daughters hold {got}')
                break
    return fails[:3]
