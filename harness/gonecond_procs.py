"""Processes of the `gonecond` family (module level: they are pickled into workers)."""
from vivarium.core.process import Process


class Worker(Process):
    name = 'gonecond-worker'
    defaults = {'k': 1}

    def ports_schema(self):
        return {'total': {'x': {'_default': 0, '_emit': True}},
                'signals': {'*': {'on': {'_default': True}}}}

    def update_condition(self, timestep, states):
        return any(s['on'] for s in states['signals'].values())

    def next_update(self, timestep, states):
        return {'total': {'x': self.parameters['k']}}


class Switch(Process):
    name = 'gonecond-switch'
    defaults = {'off': 1, 'on': None, 'how': 'delete'}

    def __init__(self, parameters=None):
        super().__init__(parameters)
        self.n = 0

    def ports_schema(self):
        return {'signals': {'*': {'on': {'_default': True}}}, 'attic': {'*': {'on': {'_default': True}}}}

    def next_update(self, timestep, states):
        self.n += 1
        if self.n == self.parameters['off']:
            if self.parameters['how'] == 'move':
                return {'signals': {'_move': [{'source': ('a',), 'target': 'attic'}]}}
            return {'signals': {'_delete': ['a']}}
        if self.n == self.parameters['on']:
            return {'signals': {'_add': [{'key': f'b{self.n}', 'state': {'on': True}}]}}
        return {}
