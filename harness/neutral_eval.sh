#!/bin/bash
# usage: harness/neutral_eval.sh <patch.diff> [checks…]   — apply a (supposedly behaviour-preserving) patch in a scratch
# worktree of /repo and run the checks against it; prints every VIOLATION / non-zero exit.  Never touches /repo.
PATCH=$(readlink -f "$1"); shift
CHECKS=${@:-C01 C02 C03 C04 C05 C06 C07 C08 C09 C10 C11 C12 C13 C14 C15 C16 C17 C18 C19}
WT=/tmp/neutral-$$
git -C /repo worktree add --detach $WT ${BASE:-HEAD} >/dev/null 2>&1 || exit 2
trap "git -C /repo worktree remove --force $WT >/dev/null 2>&1" EXIT
git -C $WT apply "$PATCH" || { echo "patch does not apply"; exit 2; }
cd /verif
for P in $CHECKS; do
  OUT=$(VERIF_REPO=$WT VERIF_SEED=${VERIF_SEED:-0} ./check $P --tier quick 2>&1); RC=$?
  echo "$P rc=$RC $(echo "$OUT" | grep -c '^VIOLATION') violations | $(echo "$OUT" | grep '^VIOLATION' | head -2 | tr '\n' ' ')"
  if [ $RC -ne 0 ]; then echo "$OUT" | grep -v "^WARNING" | tail -5 | cut -c1-300 | sed 's/^/    /'; fi
done
